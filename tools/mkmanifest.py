#!/usr/bin/env python3
"""Regenerates MANIFEST.json from the table below (single source of truth)."""
import json, os, subprocess
V = os.path.dirname(os.path.dirname(os.path.abspath(__file__)))
sys_path = os.path.join(V, 'lib')
import sys
sys.path.insert(0, sys_path)
from manifest_table import CHECKS, NOT_BUILT

props = [json.loads(l) for l in open(os.path.join(V, 'properties.jsonl'))]
hooks = subprocess.run(['git', '-C', '/repo', 'log', '--format=%H %s'], capture_output=True, text=True).stdout.split('\n')
hook_commits = [l.split()[0] for l in hooks if l and 'verif hook' in l]
m = {
    'version': 1,
    'setup_cmd': 'true',
    'hooks': {
        'guard': 'NEATVI_VERIF',
        'enable': 'every check compiles /repo/*.c itself with -DNEATVI_VERIF into a private temp dir (lib/common.py build())',
        'baseline_off_cmd': 'cd /repo && make clean >/dev/null && make >/dev/null 2>&1 && sh test.sh',
        'source_commits': hook_commits,
        'add_only': True,
    },
    'engines': [
        {'name': 'check', 'path': 'check', 'serves_properties': [c['id'] for c in CHECKS],
         'kind_free_text': 'Python driver: builds the repo (ASan+UBSan / plain), runs generated workloads 16-way, applies monitors, writes evidence'},
        {'name': 'probe', 'path': 'probe/probe.c', 'serves_properties': ['C04', 'C10', 'C11', 'C12', 'C16', 'C17', 'C18'],
         'kind_free_text': 'C probe linked against the repo objects; calls vi.h functions; in-probe monitors for exhaustive domains'},
        {'name': 'faultshim', 'path': 'shim/faultshim.c', 'serves_properties': ['C03'],
         'kind_free_text': 'LD_PRELOAD fault injector for open/write/close on save fds'},
    ],
    'checks': [],
    'not_applicable': [],
    'notes': 'See DESIGN.md. Known genuine defects are in known_findings.json (status known|fixed).',
}
for c in CHECKS:
    m['checks'].append({
        'property_id': c['id'],
        'quick_cmd': './check %s quick' % c['id'],
        'thorough_cmd': './check %s thorough' % c['id'],
        'evidence_file': 'evidence/%s.json' % c['id'],
        'replay_cmd_template': './check %s quick --replay {path}' % c['id'],
        'engine': 'check',
        'level_claimed': {'category': c.get('level', 'exploration'), 'text': c['text'], 'design_ref': 'DESIGN.md section 3, ' + c['id']},
        'level_note': c['note'],
        'technique': c['technique'],
    })
claimed = {c['id'] for c in CHECKS}
for p in props:
    if p['id'] not in claimed:
        m['not_applicable'].append({'property_id': p['id'], 'reason': NOT_BUILT.get(p['id'], 'check not built yet; the runtime-monitoring design for it is in DESIGN.md section 3')})
json.dump(m, open(os.path.join(V, 'MANIFEST.json'), 'w'), indent=1)
print('MANIFEST.json: %d checks, %d not claimed' % (len(m['checks']), len(m['not_applicable'])))
