#!/usr/bin/env python3
"""seedtest.py confirm <dir-with-patch.diff,demo.sh>        -> verify the seeded change (builds, 60 tests pass, demo fails/passes)
   seedtest.py run <seeded-dir> <Cxx> [tier]                 -> run a check against a scratch worktree with the patch applied
Scratch worktrees live under /tmp/seedwt-* and are removed afterwards."""
import os, subprocess, sys, shutil, tempfile, json

def sh(cmd, **kw):
    return subprocess.run(cmd, shell=True, capture_output=True, text=True, **kw)

def mkwt(patch=None):
    d = tempfile.mkdtemp(prefix='seedwt-')
    os.rmdir(d)
    r = sh('git -C /repo worktree add -q --detach %s HEAD' % d)
    assert r.returncode == 0, r.stderr
    if patch:
        r = sh('git -C %s apply %s' % (d, patch))
        if r.returncode != 0:
            r = sh('cd %s && patch -p1 < %s' % (d, patch))
        assert r.returncode == 0, 'patch does not apply: ' + r.stderr + r.stdout
    return d

def rmwt(d):
    sh('git -C /repo worktree remove --force %s' % d)
    shutil.rmtree(d, ignore_errors=True)

def confirm(sd):
    sd = os.path.abspath(sd)
    patch = os.path.join(sd, 'patch.diff'); demo = os.path.join(sd, 'demo.sh')
    res = {}
    clean = mkwt(); bad = mkwt(patch)
    try:
        for name, d in (('clean', clean), ('patched', bad)):
            r = sh('cd %s && make 2>&1 | tail -3' % d)
            res[name + '_build'] = os.path.exists(d + '/vi')
            tag = os.path.basename(d)
            r = sh("cd %s && sed 's#/tmp/.neatvi#/tmp/.nv%s_#g' test.sh > t_.sh && sh t_.sh; echo rc=$?; rm -f t_.sh /tmp/.nv%s_*" % (d, tag, tag))
            res[name + '_tests_ok'] = r.stdout.count(': OK')
            res[name + '_tests_rc'] = r.stdout.strip().split('rc=')[-1]
            r = sh('sh %s %s' % (demo, d), timeout=600)
            res[name + '_demo_rc'] = r.returncode
    finally:
        rmwt(clean); rmwt(bad)
    res['confirmed'] = (res['patched_build'] and res['patched_tests_ok'] == 60 and res['patched_tests_rc'] == '0'
                        and res['clean_demo_rc'] == 0 and res['patched_demo_rc'] != 0)
    print(json.dumps(res))
    return 0 if res['confirmed'] else 1

def run(sd, pid, tier="quick"):
    sd = os.path.abspath(sd)
    d = mkwt(os.path.join(sd, 'patch.diff'))
    try:
        env = dict(os.environ, NEATVI_REPO=d, VERIF_NOEVIDENCE='1')
        r = subprocess.run(['/verif/check', pid, tier], cwd='/verif', env=env, capture_output=True, text=True)
        out = r.stdout + r.stderr
        viol = [l for l in out.split('\n') if l.startswith('VIOLATION')]
        print('%s on %s: rc=%d violations=%d' % (pid, sd, r.returncode, len(viol)))
        for l in viol[:5]:
            print('   ', l[:400])
        if r.returncode not in (0, 1) or not viol:
            print(out[-1500:])
        return r.returncode
    finally:
        rmwt(d)

if __name__ == '__main__':
    if sys.argv[1] == 'confirm':
        sys.exit(confirm(sys.argv[2]))
    sys.exit(run(*sys.argv[2:]))
