#!/usr/bin/env python3
"""Confirm every /tmp/wt-out/Cxx/{A,B} and copy the confirmed ones to /verif/seeded/Cxx-A/ ..."""
import json, os, shutil, subprocess, sys
out = {}
SRC = sys.argv[1] if len(sys.argv) > 1 and not sys.argv[1].startswith('--') else '/tmp/wt-out'
REN = {'A': 'C', 'B': 'D'} if SRC.endswith('2') else {'A': 'E', 'B': 'F'} if SRC.endswith('3') else {'A': 'G', 'B': 'H'} if SRC.endswith('4') else {'A': 'I', 'B': 'J'} if SRC.endswith('5') else {'A': 'K', 'B': 'L'} if SRC.endswith('6') else {'A': 'M', 'B': 'N'} if SRC.endswith('7') else {'A': 'O', 'B': 'P'} if SRC.endswith('8') else {}
for pid in sorted(os.listdir(SRC)):
    for x in ('A', 'B', 'C', 'D'):
        sd = '%s/%s/%s' % (SRC, pid, x)
        if not os.path.exists(sd + '/patch.diff'):
            continue
        dst = '/verif/seeded/%s-%s' % (pid, REN.get(x, x))
        if os.path.exists(dst + '/meta.json') and '--force' not in sys.argv:
            continue
        r = subprocess.run(['/verif/tools/seedtest.py', 'confirm', sd], capture_output=True, text=True)
        try:
            res = json.loads(r.stdout.strip().split('\n')[-1])
        except Exception:
            res = {'confirmed': False, 'error': (r.stdout + r.stderr)[-500:]}
        print(pid, x, res.get('confirmed'), flush=True)
        if not res.get('confirmed'):
            out[pid + x] = res
            continue
        os.makedirs(dst, exist_ok=True)
        shutil.copy(sd + '/patch.diff', dst)
        shutil.copy(sd + '/demo.sh', dst)
        try:
            meta = json.load(open(sd + '/meta.json'))
        except Exception:
            meta = {}
        meta['property'] = pid
        meta['confirmed_by'] = 'tools/seedtest.py confirm: scratch worktree of /repo HEAD; patched tree builds, 60/60 tests pass, demo.sh exits %s; clean tree demo.sh exits 0' % res['patched_demo_rc']
        meta['origin'] = 'independent sub-agent given only the property record and a scratch worktree'
        json.dump(meta, open(dst + '/meta.json', 'w'), indent=1)
print('unconfirmed:', json.dumps(out, indent=1))
