#!/usr/bin/env python3-vt
import json, jsonschema, glob, sys
m = json.load(open('/verif/MANIFEST.json'))
jsonschema.validate(m, json.load(open('/root/.vp/MANIFEST.schema.json')))
es = json.load(open('/root/.vp/EVIDENCE.schema.json'))
ok = True
for c in m['checks']:
    try:
        ev = json.load(open('/verif/' + c['evidence_file']))
        jsonschema.validate(ev, es)
        assert ev['level'] == c['level_claimed']['category'], 'level mismatch'
        print(c['property_id'], 'evidence ok', ev['tier'], ev['coverage']['evaluations'], ev['coverage']['distinct_nontrivial'])
    except Exception as e:
        ok = False
        print(c['property_id'], 'EVIDENCE PROBLEM', str(e)[:200])
print('manifest ok')
sys.exit(0 if ok else 1)
