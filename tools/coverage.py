#!/usr/bin/env python3
"""coverage.py [n]  -- which lines of /repo the checks' workloads reach.

Not a check: a measuring tool used while designing workloads (DESIGN.md section 4).  Builds /repo with gcc --coverage,
runs n cases (default 300) of each binary-driving check's generator against that build, then prints per-file line
coverage and the functions never entered."""
import os, sys, subprocess, re
sys.path.insert(0, os.path.join(os.path.dirname(os.path.abspath(__file__)), '..', 'lib'))
import common
from common import pmap

n = int(sys.argv[1]) if len(sys.argv) > 1 else 300
vi = common.build('cov')
bdir = os.path.dirname(vi)
os.chmod(common.tmp_root(), 0o755)

import c02, c05, c06, c07, c08, c09, c13, c14, c15, c19, c20, c17, c01, c04
c05.drop_priv = None          # the .gcda files are written by the editor itself
tests = c05.test_streams()
W = c17.Widths()
jobs = [
    ('C05', c05.run_case, [(vi, i, tests) for i in range(4 * n)]),
    ('C06', c06.run_script, [(vi, i) for i in range(n)]),
    ('C07', c07.run_case, [(vi, i, W, 'quick') for i in range(n)]),
    ('C08', c08.run_case, [(vi, i, W) for i in range(n)]),
    ('C09', c09.run_case, [(vi, i) for i in range(n // 2)]),
    ('C13', c13.run_case, [(vi, i) for i in range(n)]),
    ('C14', c14.run_case, [(vi, i) for i in range(n)]),
    ('C15', c15.run_case, [(vi, i) for i in range(n)]),
    ('C19', c19.run_case, [(vi, i, W) for i in range(n)]),
    ('C20', c20.run_history, [(vi, i) for i in range(n // 4)]),
    ('C02', c02.run_history, [(vi, i) for i in range(n // 10)]),
    ('C04', c04.run_history, [(vi, m, i) for m in ('ex', 'vi') for i in range(n // 4)]),
]
for name, fn, args in jobs:
    try:
        pmap(fn, args)
        print('ran', name, len(args), flush=True)
    except Exception as e:
        print('skipped', name, repr(e)[:200], flush=True)

tot = [0, 0]
never = []
done = set()
for s in common.SRCS:
    r = subprocess.run(['gcov', '-f', '-o', bdir, os.path.join(common.REPO, s)], capture_output=True, text=True, cwd=bdir)
    fn = None
    for line in r.stdout.split('\n'):
        m = re.match(r"Function '(.*)'", line)
        if m:
            fn = m.group(1)
            continue
        m = re.match(r"File '(.*)'", line)
        if m:
            fn = None
            cur = m.group(1)
            continue
        m = re.match(r'Lines executed:([\d.]+)% of (\d+)', line)
        if m:
            if not fn and s in done:
                continue
            if fn:
                if float(m.group(1)) == 0:
                    never.append('%s:%s(%s lines)' % (s, fn, m.group(2)))
                fn = None
            elif cur.endswith(s):
                done.add(s)
                print('%-10s %6s%% of %s lines' % (s, m.group(1), m.group(2)))
                tot[0] += float(m.group(1)) * int(m.group(2)) / 100
                tot[1] += int(m.group(2))
print('TOTAL %.1f%% of %d lines' % (100 * tot[0] / max(1, tot[1]), tot[1]))
print('functions never entered:', ', '.join(never))
# keep annotated sources for inspection
out = '/tmp/neatvi-gcov'
os.makedirs(out, exist_ok=True)
for f in os.listdir(bdir):
    if f.endswith('.gcov'):
        os.replace(os.path.join(bdir, f), os.path.join(out, f))
print('annotated sources in', out)
