/*
 * neatvi probe: calls the non-static functions declared in vi.h on behalf of the Python
 * monitors.  Line protocol on stdin (strings are hex, "-" is the empty string, "~" is NULL);
 * one result line per command on stdout, flushed, so that after a crash the number of complete
 * lines identifies the command that died.
 *
 * Some commands enumerate a finite domain inside the probe and run a monitor written here in C
 * (range/boundary assertions for C11, the two-path comparison for C12, the snapshot-stack undo
 * model for C04); they print counters, samples and "ANOM ..." lines for whatever they observed.
 */
#include <ctype.h>
#include <stdio.h>
#include <stdlib.h>
#include <string.h>
#include "vi.h"

extern int neatvi_verif_re_cut;
extern long neatvi_verif_re_budget;
extern long neatvi_verif_re_steps;

static char *unhex(char *h)
{
	int n, i;
	char *r;
	if (!strcmp(h, "~"))
		return NULL;
	if (!strcmp(h, "-"))
		h = "";
	n = strlen(h) / 2;
	r = malloc(n + 1);
	for (i = 0; i < n; i++) {
		unsigned v;
		sscanf(h + 2 * i, "%2x", &v);
		r[i] = v;
	}
	r[n] = '\0';
	return r;
}

static void puthex(char *s, int n)
{
	int i;
	if (!s) {
		printf("~");
		return;
	}
	if (n < 0)
		n = strlen(s);
	if (!n)
		printf("-");
	for (i = 0; i < n; i++)
		printf("%02x", (unsigned char) s[i]);
}

static int enc(int c, char *d)
{
	if (c < 0x80) {
		d[0] = c;
		d[1] = 0;
		return 1;
	}
	if (c < 0x800) {
		d[0] = 0xc0 | (c >> 6);
		d[1] = 0x80 | (c & 0x3f);
		d[2] = 0;
		return 2;
	}
	if (c < 0x10000) {
		d[0] = 0xe0 | (c >> 12);
		d[1] = 0x80 | ((c >> 6) & 0x3f);
		d[2] = 0x80 | (c & 0x3f);
		d[3] = 0;
		return 3;
	}
	d[0] = 0xf0 | (c >> 18);
	d[1] = 0x80 | ((c >> 12) & 0x3f);
	d[2] = 0x80 | ((c >> 6) & 0x3f);
	d[3] = 0x80 | (c & 0x3f);
	d[4] = 0;
	return 4;
}

/* ---- regex helpers ---- */
#define NG	40

static int find1(char *pat, int icase, char *line, int flg, int *g)
{
	char *pats[1] = {pat};
	struct rset *rs = rset_make(1, pats, icase ? RE_ICASE : 0);
	int i, r;
	for (i = 0; i < 4; i++)
		g[i] = -9;
	if (!rs)
		return -2;
	r = rset_find(rs, line, 2, g, flg);
	rset_free(rs);
	return r;
}

/* ucr lo hi: per code point facts */
static void cmd_ucr(int lo, int hi)
{
	int c;
	for (c = lo; c < hi; c++) {
		char ch[8], chx[8], ln[16], pat[16];
		int n, g[4], r1, r2, r3, r4, i;
		if (c >= 0xd800 && c <= 0xdfff)
			continue;
		n = enc(c, ch);
		memcpy(chx, ch, n);
		chx[n] = 'x';
		chx[n + 1] = 0;
		printf("%x ", c);
		puthex(ch, n);
		printf(" %d %d %d %d %d %d", uc_len(ch), uc_code(ch), uc_slen(ch),
			(int) (uc_end(ch) - ch), (int) (uc_next(ch) - ch), uc_slen(chx));
		printf(" %d %d %d %d", uc_wid(ch), !!uc_isbell(ch), !!uc_iscomb(ch), uc_kind(ch));
		for (i = 0; i < 8; i += 7)
			printf(" %d", ren_cwid(ch, i));
		/* the regex engine's private decoders, seen through matches */
		sprintf(ln, "x%sy\n", ch);
		r1 = find1("x.y", 0, ln, 0, g);
		printf(" %d:%d:%d", r1, g[0], g[1]);
		if (c != '\n') {
			int special = c < 128 && strchr("\\^]-[", c);
			sprintf(pat, special ? "[\\%s]y" : "[%s]y", ch);
			if (c == '\\' || c == ']' || c == '^' || c == '-' || c == '[')
				sprintf(pat, "[%s]y", c == '^' ? "a^" : (c == ']' ? "]" : (c == '-' ? "a-" : ch)));
			r2 = find1(pat, 0, ln, 0, g);
			printf(" %d:%d:%d", r2, g[0], g[1]);
			sprintf(pat, "[^%s]y", c == ']' ? "]" : (c == '^' ? "b^" : (c == '-' ? "b-" : ch)));
			r3 = find1(pat, 0, ln, 0, g);
			printf(" %d:%d:%d", r3, g[0], g[1]);
			if (c < 128 && strchr(".^$[(|)*?+{\\", c))
				sprintf(pat, "\\%sy", ch);
			else
				sprintf(pat, "%sy", ch);
			r4 = find1(pat, 1, ln, 0, g);	/* icase path decodes both sides */
			printf(" %d:%d:%d", r4, g[0], g[1]);
		} else {
			printf(" -:-:- -:-:- -:-:-");
		}
		/* an ASCII letter equal to the code point's low byte, ignoring case, must not match the character */
		if (c >= 128 && isalpha(c & 0xff) && (c & 0xff) < 128) {
			char ln2[16];
			sprintf(ln2, "<%s>\n", ch);
			sprintf(pat, "%c+", tolower(c & 0xff));
			r1 = find1(pat, 1, ln2, 0, g);
			printf(" %d:%d:%d", r1, g[0], g[1]);
		} else {
			printf(" -:-:-");
		}
		printf("\n");
	}
	printf("END\n");
}

/* ucs hex: string-level helpers */
static void cmd_ucs(char *s, int nosub)
{
	int len = strlen(s);
	int n = uc_slen(s);
	int i, j, cn;
	char **chrs;
	printf("%d", n);
	printf(" chr");
	for (i = -1; i <= n + 1; i++) {
		char *p = uc_chr(s, i);
		if (p >= s && p <= s + len)
			printf(" %d", (int) (p - s));
		else
			printf(" E%d", p ? (unsigned char) p[0] : -1);
	}
	printf(" off");
	for (i = 0; i <= len + 1; i++)
		printf(" %d", uc_off(s, i));
	printf(" nx");
	for (i = 0; i <= len; i++)
		printf(" %d", (int) (uc_next(s + i) - s));
	printf(" en");
	for (i = 0; i <= len; i++)
		printf(" %d", (int) (uc_end(s + i) - s));
	printf(" bg");
	for (i = 0; i <= len; i++)
		printf(" %d", (int) (uc_beg(s, s + i) - s));
	printf(" pv");
	for (i = 0; i <= len; i++)
		printf(" %d", (int) (uc_prev(s, s + i) - s));
	chrs = uc_chop(s, &cn);
	printf(" chop %d", cn);
	for (i = 0; i <= cn; i++)
		printf(" %d", (int) (chrs[i] - s));
	free(chrs);
	printf(" sub");
	for (i = 0; i <= n && !nosub; i++) {
		for (j = i; j <= n; j++) {
			char *r = uc_sub(s, i, j);
			printf(" ");
			puthex(r, -1);
			free(r);
		}
		{
			char *r = uc_sub(s, i, -1);
			printf(" ");
			puthex(r, -1);
			free(r);
		}
	}
	printf("\n");
}

static void setopts(int order, int td, int lim, int shape)
{
	xorder = order;
	xtd = td;
	xlim = lim;
	xshape = shape;
}

/* ren order td lim hex */
static void cmd_ren(char *s)
{
	int n = uc_slen(s);
	int *pos = ren_position(s);
	int wid = pos[n];
	int i;
	printf("%d pos", n);
	for (i = 0; i <= n; i++)
		printf(" %d", pos[i]);
	free(pos);
	printf(" wid %d ctx %d", ren_wid(s), dir_context(s));
	printf(" rp");
	for (i = 0; i <= n; i++)
		printf(" %d", ren_pos(s, i));
	printf(" ro");
	for (i = 0; i <= wid + 2; i++)
		printf(" %d", ren_off(s, i));
	printf(" rn");
	for (i = 0; i <= wid + 2; i++)
		printf(" %d", ren_next(s, i, +1));
	printf(" rb");
	for (i = 0; i <= wid + 2; i++)
		printf(" %d", ren_next(s, i, -1));
	printf(" rc");
	for (i = 0; i <= wid + 2; i++)
		printf(" %d", ren_cursor(s, i));
	printf(" ne");
	for (i = 0; i <= n + 1; i++)
		printf(" %d", ren_noeol(s, i));
	printf("\n");
}

/* dir hex: the permutation computed by dir_reorder */
static void cmd_dir(char *s)
{
	int n = uc_slen(s);
	int *ord = malloc((n + 2) * sizeof(ord[0]));
	int i;
	for (i = 0; i < n; i++)
		ord[i] = i;
	ord[n] = -77;
	ord[n + 1] = -77;
	dir_reorder(s, ord);
	printf("%d ctx %d ord", n, dir_context(s));
	for (i = 0; i < n; i++)
		printf(" %d", ord[i]);
	printf(" guard %d\n", ord[n]);
	free(ord);
}

/* shape hex: per character translation */
static void cmd_shape(char *s)
{
	int n, i;
	char **chrs = uc_chop(s, &n);
	printf("%d", n);
	for (i = 0; i < n; i++) {
		char *t = uc_shape(s, chrs[i]);
		char *r = ren_translate(chrs[i], s);
		printf(" ");
		puthex(t, -1);
		printf("/");
		puthex(r, -1);
	}
	printf("\n");
	free(chrs);
}

/* ---- regex sets ---- */
static struct rset *cur_rset;
static struct rstr *cur_rstr;

static void cmd_find(char *line, int flg, int nsub, int which)
{
	int g[NG * 2];
	int i, r;
	long steps;
	for (i = 0; i < NG * 2; i++)
		g[i] = -7;
	if (nsub > NG)
		nsub = NG;
	neatvi_verif_re_cut = 0;
	neatvi_verif_re_steps = 0;
	if (which == 0) {
		if (!cur_rset) {
			printf("noset\n");
			return;
		}
		r = rset_find(cur_rset, line, nsub, g, flg);
	} else {
		if (!cur_rstr) {
			printf("noset\n");
			return;
		}
		r = rstr_find(cur_rstr, line, nsub, g, flg);
	}
	steps = neatvi_verif_re_steps;
	printf("%d cut %d steps %ld g", r, neatvi_verif_re_cut, steps);
	for (i = 0; i < nsub * 2; i++)
		printf(" %d", g[i]);
	printf("\n");
}

/* ---- C11: exhaustive pattern strings, range/boundary monitor in C ---- */
static char *c11_lines[] = {"\n", "a\n", "aa1,9\n", "ab(a)[a]{1}\n", "\xc3\xa9" "\xc3\xa8" "a\xe2\x82\xac" "\xe2\x82\xad" "a\xf0\x9f\x98\x80" "\xf0\x9f\x98\x81" "a\n", "a|b*+?^$.-:\\\n", "aaaaaaaaaaaaaaaaaaaa\n"};

static long c11_npat, c11_ncomp, c11_nmatch, c11_nanom, c11_nrstr, c11_ncut;

static int onboundary(char *s, int o)
{
	return (((unsigned char) s[o]) & 0xc0) != 0x80;
}

static void c11_check(char *pat)
{
	int icase, li, flg, k;
	c11_npat++;
	for (icase = 0; icase < 2; icase++) {
		char *pats[1] = {pat};
		struct rset *rs = rset_make(1, pats, icase ? RE_ICASE : 0);
		struct rstr *rt = rstr_make(pat, icase ? RE_ICASE : 0);
		if (rs)
			c11_ncomp++;
		if (rt)
			c11_nrstr++;
		for (li = 0; li < LEN(c11_lines); li++) {
			char *ln = c11_lines[li];
			int len = strlen(ln);
			for (flg = 0; flg < 8; flg += (icase ? 7 : 3)) {
				for (k = 0; k < 2; k++) {
					int g[8] = {-7, -7, -7, -7, -7, -7, -7, -7};
					int r;
					if ((k == 0 && !rs) || (k == 1 && !rt))
						continue;
					neatvi_verif_re_cut = 0;
					neatvi_verif_re_steps = 0;
					r = k == 0 ? rset_find(rs, ln, 4, g, flg & 6) : rstr_find(rt, ln, 4, g, flg & 6);
					if (neatvi_verif_re_cut)
						c11_ncut++;
					if (r >= 0) {
						int j, bad = 0;
						c11_nmatch++;
						if (!(0 <= g[0] && g[0] <= g[1] && g[1] <= len))
							bad = 1;
						else if (!onboundary(ln, g[0]) || !onboundary(ln, g[1]))
							bad = 1;
						for (j = 1; j < 4 && !bad; j++) {
							int so = g[2 * j], eo = g[2 * j + 1];
							if (so == -7 && k == 1)
								continue;	/* fast path leaves them unwritten: C12's business */
							if (so == -1 && eo == -1)
								continue;
							if (!(0 <= so && so <= eo && eo <= len))
								bad = 1;
							else if (!onboundary(ln, so) || !onboundary(ln, eo))
								bad = 1;
						}
						if (bad) {
							c11_nanom++;
							printf("ANOM range path=%d icase=%d flg=%d pat=", k, icase, flg & 6);
							puthex(pat, -1);
							printf(" line=%d g=%d,%d,%d,%d,%d,%d\n", li, g[0], g[1], g[2], g[3], g[4], g[5]);
						}
					}
				}
			}
		}
		if (rs)
			rset_free(rs);
		if (rt)
			rstr_free(rt);
	}
}

static void cmd_c11enum(char *alpha, int maxlen, int shard, int nshards, long budget, long resume)
{
	int na = strlen(alpha);
	int idx[16];
	char pat[32];
	int len, i;
	long count = 0;
	neatvi_verif_re_budget = budget;
	for (len = 1; len <= maxlen; len++) {
		memset(idx, 0, sizeof(idx));
		while (1) {
			if (count++ % nshards == shard && count > resume) {
				for (i = 0; i < len; i++)
					pat[i] = alpha[idx[i]];
				pat[len] = 0;
				fprintf(stderr, "PAT %ld %s\n", count, pat);
				c11_check(pat);
			}
			for (i = len - 1; i >= 0; i--) {
				if (++idx[i] < na)
					break;
				idx[i] = 0;
			}
			if (i < 0)
				break;
		}
	}
	neatvi_verif_re_budget = 0;
	fprintf(stderr, "PAT 0 -\n");
	printf("DONE npat %ld ncomp %ld nrstr %ld nmatch %ld ncut %ld nanom %ld\n",
		c11_npat, c11_ncomp, c11_nrstr, c11_nmatch, c11_ncut, c11_nanom);
}

/* ---- C12: literal fast path vs engine, exhaustive over a small domain, in C ---- */
static long c12_ncmp, c12_nfound, c12_ndiff, c12_ncut, c12_nsimplelike;

static void c12_compare(char *pat, char *line, int shown_limit)
{
	int icase, flg;
	for (icase = 0; icase < 2; icase++) {
		char *pats[1] = {pat};
		struct rset *rs = rset_make(1, pats, icase ? RE_ICASE : 0);
		struct rstr *rt = rstr_make(pat, icase ? RE_ICASE : 0);
		for (flg = 0; flg < 16; flg += 2) {
			int g1[6], g2[6], r1, r2, i, diff = 0;
			for (i = 0; i < 6; i++)
				g1[i] = g2[i] = -1;
			if (!rs || !rt) {
				if ((!rs) != (!rt)) {
					c12_ndiff++;
					if (c12_ndiff <= shown_limit) {
						printf("DIFF compile icase=%d pat=", icase);
						puthex(pat, -1);
						printf(" rset=%d rstr=%d\n", !!rs, !!rt);
					}
				}
				break;
			}
			neatvi_verif_re_cut = 0;
			r1 = rset_find(rs, line, 3, g1, flg);
			if (neatvi_verif_re_cut) {
				c12_ncut++;
				continue;
			}
			for (i = 2; i < 6; i++)
				g2[i] = -7;	/* must be written as unset (-1) by the fast path */
			r2 = rstr_find(rt, line, 3, g2, flg);
			c12_ncmp++;
			if ((r1 >= 0) != (r2 >= 0))
				diff = 1;
			else if (r1 >= 0) {
				c12_nfound++;
				if (g1[0] != g2[0] || g1[1] != g2[1])
					diff = 2;
				else if (g2[2] != g1[2] || g2[3] != g1[3] || g2[4] != g1[4] || g2[5] != g1[5])
					diff = 3;
			}
			if (diff) {
				c12_ndiff++;
				if (c12_ndiff <= shown_limit) {
					printf("DIFF kind=%d icase=%d flg=%d pat=", diff, icase, flg);
					puthex(pat, -1);
					printf(" line=");
					puthex(line, -1);
					printf(" engine=%d:%d,%d,%d,%d fast=%d:%d,%d,%d,%d\n",
						r1, g1[0], g1[1], g1[2], g1[3], r2, g2[0], g2[1], g2[2], g2[3]);
				}
			}
		}
		if (rs)
			rset_free(rs);
		if (rt)
			rstr_free(rt);
	}
}

static char *c12_syms[16];
static int c12_nsyms;

/* c12enum litalpha(hex, '|'-separated symbols) maxlit linealpha maxline shard nshards */
static int split_syms(char *s, char **out)
{
	int n = 0;
	char *t = strtok(s, ",");
	while (t && n < 16) {
		out[n++] = unhex(t);
		t = strtok(NULL, ",");
	}
	return n;
}

static void cmd_c12enum(char *litsyms, int maxlit, char *linesyms, int maxline, int shard, int nshards, int limit)
{
	char *ls[16];
	int nls, i, j;
	long count = 0;
	int pre, post;
	int li[8], lj[8];
	int litlen, linelen;
	c12_nsyms = split_syms(litsyms, c12_syms);
	nls = split_syms(linesyms, ls);
	for (litlen = 0; litlen <= maxlit; litlen++) {
		memset(li, 0, sizeof(li));
		while (1) {
			char lit[64] = "";
			for (i = 0; i < litlen; i++)
				strcat(lit, c12_syms[li[i]]);
			for (pre = 0; pre < 4; pre++) {
				for (post = 0; post < 4; post++) {
					char pat[96] = "";
					if (pre & 1)
						strcat(pat, "^");
					if (pre & 2)
						strcat(pat, "\\<");
					strcat(pat, lit);
					if (post & 1)
						strcat(pat, "\\>");
					if (post & 2)
						strcat(pat, "$");
					if (!pat[0])
						continue;
					if (count++ % nshards != shard)
						continue;
					c12_nsimplelike++;
					for (linelen = 0; linelen <= maxline; linelen++) {
						memset(lj, 0, sizeof(lj));
						while (1) {
							char line[64] = "";
							for (j = 0; j < linelen; j++)
								strcat(line, ls[lj[j]]);
							strcat(line, "\n");
							c12_compare(pat, line, limit);
							for (j = linelen - 1; j >= 0; j--) {
								if (++lj[j] < nls)
									break;
								lj[j] = 0;
							}
							if (j < 0)
								break;
						}
					}
				}
			}
			for (i = litlen - 1; i >= 0; i--) {
				if (++li[i] < c12_nsyms)
					break;
				li[i] = 0;
			}
			if (i < 0)
				break;
		}
	}
	printf("DONE npat %ld ncmp %ld nfound %ld ncut %ld ndiff %ld\n",
		c12_nsimplelike, c12_ncmp, c12_nfound, c12_ncut, c12_ndiff);
}

/* ---- C04: line buffer undo/redo, exhaustive op sequences vs snapshot stack, in C ---- */
#define MAXD	12
struct uop {
	int kind;	/* 0 edit, 1 newcmd, 2 undo, 3 redo */
	int beg, end;
	char *txt;	/* NULL allowed */
};

static struct uop u_ops[64];
static int u_nops;
static long u_nseq, u_nchk, u_nbad, u_nundo, u_nredo, u_nfail, u_ntrunc;
static char *u_init;

static char *model_edit(char *cur, int beg, int end, char *txt)
{
	/* cur: newline-terminated lines; replace lines [beg,end) with txt */
	char *lines[64];
	int n = 0, i;
	char *s = cur;
	struct sbuf *sb = sbuf_make();
	while (*s) {
		lines[n++] = s;
		s = strchr(s, '\n') + 1;
	}
	lines[n] = s;
	if (beg > n)
		beg = n;
	if (end > n)
		end = n;
	for (i = 0; i < beg; i++)
		sbuf_mem(sb, lines[i], lines[i + 1] - lines[i]);
	if (txt) {
		sbuf_str(sb, txt);
		if (txt[0] && txt[strlen(txt) - 1] != '\n')
			sbuf_chr(sb, '\n');
	}
	for (i = end; i < n; i++)
		sbuf_mem(sb, lines[i], lines[i + 1] - lines[i]);
	return sbuf_done(sb);
}

static void u_run(int *seq, int depth)
{
	/* model: stack of texts, one per undo step; cur index; open = edits since last newcmd share a step */
	char *stack[MAXD + 2];
	int top = 0, cur = 0;	/* stack[0..top], cur is current position */
	int open = 0;		/* an undo step is open (edits without newcmd in between) */
	struct lbuf *lb = lbuf_make();
	int i, k;
	char *got;
	if (u_init[0])
		lbuf_edit(lb, u_init, 0, 0);
	lbuf_saved(lb, 1);	/* clears history like :e does */
	stack[0] = uc_dup(u_init);
	u_nseq++;
	for (k = 0; k < depth; k++) {
		struct uop *op = &u_ops[seq[k]];
		int ret = 0, expect_ret = 0;
		if (op->kind == 0) {
			char *nt = model_edit(stack[cur], op->beg, op->end, op->txt);
			int nlines = 0;
			char *t;
			int noop;
			for (t = stack[cur]; *t; t++)
				nlines += *t == '\n';
			/* lbuf_edit ignores a pure deletion of nothing */
			noop = !op->txt && MIN(op->beg, nlines) == MIN(op->end, nlines);
			lbuf_edit(lb, op->txt, op->beg, op->end);
			if (noop) {
				free(nt);
			} else if (open) {
				free(stack[cur]);
				stack[cur] = nt;
			} else {
				for (i = cur + 1; i <= top; i++)
					free(stack[i]);
				if (cur < top)
					u_ntrunc++;
				stack[++cur] = nt;
				top = cur;
				open = 1;
			}
			if (!noop && open && cur < top) {
				for (i = cur + 1; i <= top; i++)
					free(stack[i]);
				top = cur;
			}
		}
		if (op->kind == 1) {
			lbuf_modified(lb);
			open = 0;
		}
		if (op->kind == 2) {
			ret = lbuf_undo(lb);
			expect_ret = cur == 0;
			if (!expect_ret)
				cur--;
			open = 0;
			u_nundo++;
			lbuf_modified(lb);
		}
		if (op->kind == 3) {
			ret = lbuf_redo(lb);
			expect_ret = cur == top;
			if (!expect_ret)
				cur++;
			open = 0;
			u_nredo++;
			lbuf_modified(lb);
		}
		if (op->kind >= 2 && expect_ret)
			u_nfail++;
		got = lbuf_cp(lb, 0, lbuf_len(lb));
		u_nchk++;
		if (strcmp(got, stack[cur]) || (op->kind >= 2 && (!!ret) != expect_ret)) {
			u_nbad++;
			if (u_nbad <= 20) {
				printf("ANOM undo seq=");
				for (i = 0; i <= k; i++)
					printf("%d%s", seq[i], i < k ? "," : "");
				printf(" step=%d ret=%d expect_ret=%d got=", k, ret, expect_ret);
				puthex(got, -1);
				printf(" want=");
				puthex(stack[cur], -1);
				printf("\n");
			}
			free(got);
			break;
		}
		free(got);
	}
	for (i = 0; i <= top; i++)
		free(stack[i]);
	lbuf_free(lb);
}

/*
 * NOTE on the model: an "undo step" is the set of edits between two lbuf_modified() calls
 * (that is what ex_command()/vi() do once per top-level command).  undo/redo are themselves
 * followed by lbuf_modified() as in the editor's main loops.
 */
static void cmd_undoenum(char *init, int depth, int shard, int nshards)
{
	int seq[MAXD];
	int i;
	long count = 0;
	u_init = init;
	memset(seq, 0, sizeof(seq));
	while (1) {
		if (count++ % nshards == shard)
			u_run(seq, depth);
		for (i = depth - 1; i >= 0; i--) {
			if (++seq[i] < u_nops)
				break;
			seq[i] = 0;
		}
		if (i < 0)
			break;
	}
	printf("DONE nseq %ld nchk %ld nundo %ld nredo %ld nfail_at_ends %ld ntrunc %ld nbad %ld\n",
		u_nseq, u_nchk, u_nundo, u_nredo, u_nfail, u_ntrunc, u_nbad);
}

/* ---- interactive lbuf commands (Python-side model) ---- */
static struct lbuf *cur_lb;

int main(int argc, char *argv[])
{
	static char line[1 << 20];
	char *files[] = {NULL};
	setvbuf(stdout, NULL, _IOFBF, 1 << 16);
	dir_init();
	syn_init();
	ex_init(files);
	while (fgets(line, sizeof(line), stdin)) {
		char *tok[64];
		int nt = 0;
		char *t = strtok(line, " \n");
		while (t && nt < 64) {
			tok[nt++] = t;
			t = strtok(NULL, " \n");
		}
		if (!nt)
			continue;
		if (!strcmp(tok[0], "ucr")) {
			cmd_ucr(strtol(tok[1], NULL, 0), strtol(tok[2], NULL, 0));
		} else if (!strcmp(tok[0], "ucs")) {
			char *s = unhex(tok[1]);
			cmd_ucs(s, nt > 2);
			free(s);
		} else if (!strcmp(tok[0], "sub")) {
			char *s = unhex(tok[1]);
			char *r = uc_sub(s, atoi(tok[2]), atoi(tok[3]));
			puthex(r, -1);
			printf(" %d %d\n", (int) (uc_chr(s, atoi(tok[2])) - s), uc_off(s, atoi(tok[4])));
			free(r);
			free(s);
		} else if (!strcmp(tok[0], "opts")) {
			setopts(atoi(tok[1]), atoi(tok[2]), atoi(tok[3]), atoi(tok[4]));
			printf("ok\n");
		} else if (!strcmp(tok[0], "ren")) {
			char *s = unhex(tok[1]);
			cmd_ren(s);
			free(s);
		} else if (!strcmp(tok[0], "dir")) {
			char *s = unhex(tok[1]);
			cmd_dir(s);
			free(s);
		} else if (!strcmp(tok[0], "shape")) {
			char *s = unhex(tok[1]);
			cmd_shape(s);
			free(s);
		} else if (!strcmp(tok[0], "rset")) {
			/* rset icase n pat... ("~" = NULL entry) */
			int icase = atoi(tok[1]);
			int n = atoi(tok[2]);
			char *pats[32];
			int i;
			for (i = 0; i < n && i < 32; i++)
				pats[i] = unhex(tok[3 + i]);
			if (cur_rset)
				rset_free(cur_rset);
			cur_rset = rset_make(n, pats, icase ? RE_ICASE : 0);
			printf(cur_rset ? "ok\n" : "null\n");
			for (i = 0; i < n && i < 32; i++)
				free(pats[i]);
		} else if (!strcmp(tok[0], "rstr")) {
			int icase = atoi(tok[1]);
			char *p = unhex(tok[2]);
			if (cur_rstr)
				rstr_free(cur_rstr);
			cur_rstr = rstr_make(p, icase ? RE_ICASE : 0);
			printf(cur_rstr ? "ok\n" : "null\n");
			free(p);
		} else if (!strcmp(tok[0], "budget")) {
			neatvi_verif_re_budget = atol(tok[1]);
			printf("ok\n");
		} else if (!strcmp(tok[0], "find") || !strcmp(tok[0], "rfind")) {
			/* find flg nsub line */
			char *s = unhex(tok[3]);
			cmd_find(s, atoi(tok[1]), atoi(tok[2]), tok[0][0] == 'r');
			free(s);
		} else if (!strcmp(tok[0], "c11enum")) {
			char *a = unhex(tok[1]);
			cmd_c11enum(a, atoi(tok[2]), atoi(tok[3]), atoi(tok[4]), atol(tok[5]), nt > 6 ? atol(tok[6]) : 0);
			free(a);
		} else if (!strcmp(tok[0], "c11one")) {
			char *a = unhex(tok[1]);
			neatvi_verif_re_budget = atol(tok[2]);
			c11_nanom = 0;
			c11_check(a);
			neatvi_verif_re_budget = 0;
			printf("one nanom %ld ncomp %ld nmatch %ld ncut %ld\n", c11_nanom, c11_ncomp, c11_nmatch, c11_ncut);
			free(a);
		} else if (!strcmp(tok[0], "c12enum")) {
			cmd_c12enum(tok[1], atoi(tok[2]), tok[3], atoi(tok[4]), atoi(tok[5]), atoi(tok[6]), atoi(tok[7]));
		} else if (!strcmp(tok[0], "c12one")) {
			char *p = unhex(tok[1]);
			char *l = unhex(tok[2]);
			long d0 = c12_ndiff;
			c12_compare(p, l, 1 << 30);
			printf("one ndiff %ld\n", c12_ndiff - d0);
			free(p);
			free(l);
		} else if (!strcmp(tok[0], "uop")) {
			/* uop kind beg end txt : register an operation for undoenum */
			struct uop *o = &u_ops[u_nops++];
			o->kind = atoi(tok[1]);
			o->beg = atoi(tok[2]);
			o->end = atoi(tok[3]);
			o->txt = unhex(tok[4]);
			printf("ok %d\n", u_nops);
		} else if (!strcmp(tok[0], "undoenum")) {
			char *init = unhex(tok[1]);
			cmd_undoenum(init, atoi(tok[2]), atoi(tok[3]), atoi(tok[4]));
			free(init);
		} else if (!strcmp(tok[0], "lb")) {
			if (!strcmp(tok[1], "new")) {
				if (cur_lb)
					lbuf_free(cur_lb);
				cur_lb = lbuf_make();
				printf("ok\n");
			} else if (!strcmp(tok[1], "edit")) {
				char *s = unhex(tok[4]);
				lbuf_edit(cur_lb, s, atoi(tok[2]), atoi(tok[3]));
				free(s);
				printf("ok\n");
			} else if (!strcmp(tok[1], "undo")) {
				printf("%d\n", lbuf_undo(cur_lb));
			} else if (!strcmp(tok[1], "redo")) {
				printf("%d\n", lbuf_redo(cur_lb));
			} else if (!strcmp(tok[1], "mod")) {
				printf("%d\n", lbuf_modified(cur_lb));
			} else if (!strcmp(tok[1], "saved")) {
				lbuf_saved(cur_lb, atoi(tok[2]));
				printf("ok\n");
			} else if (!strcmp(tok[1], "mark")) {
				lbuf_mark(cur_lb, tok[2][0], atoi(tok[3]), atoi(tok[4]));
				printf("ok\n");
			} else if (!strcmp(tok[1], "jump")) {
				int p = -5, o = -5;
				int r = lbuf_jump(cur_lb, tok[2][0], &p, &o);
				printf("%d %d %d\n", r, p, o);
			} else if (!strcmp(tok[1], "dump")) {
				char *s = lbuf_cp(cur_lb, 0, lbuf_len(cur_lb));
				printf("%d ", lbuf_len(cur_lb));
				puthex(s, -1);
				printf("\n");
				free(s);
			} else {
				printf("?\n");
			}
		} else {
			printf("?\n");
		}
		fflush(stdout);
	}
	return 0;
}
