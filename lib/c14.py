"""C14: substitute rewrites exactly the leftmost non-overlapping matches.

Reference-model monitor on the real binary (ASan+UBSan, `vi -s -e`): the substitute model sits on
top of the reference matcher of C10 and scans the ORIGINAL line left to right with full context.
"""
import os
import common, gen
import model_regex as mr
from common import pmap, rng, build

DELIMS = ['/', '/', '/', ',', '#', ':']


def model_subst(line, ast, rep, g, icase, variant=None):
    """line: str without terminator.  Returns the new line (str) or None if no match.
    variant='suffix': the defect variant in which each resumed search sees only the rest of the line
    (no left context for \\< \\>; ^ excluded through NOTBOL)."""
    s = line                # the terminator is not part of the line's text
    n = len(line)
    out = []
    pos = 0
    did = False
    flags = {'emptyloop': False}
    while True:
        if variant == 'suffix':
            sub = s[pos:]
            M = mr.Matcher(ast, sub, icase, notbol=pos > 0)
            r = M.search()
            if r is not None:
                a, b, groups = r
                a, b = a + pos, b + pos
                groups = [(x + pos, y + pos) if x >= 0 and y >= 0 else (-1, -1) for x, y in groups]
        else:
            M = mr.Matcher(ast, s, icase)
            r = None
            for st in range(pos, len(s) + 1):
                r0 = M.match_at(st)
                if r0 is not None:
                    j, c = r0
                    groups = [(c.get(2 * k, -1), c.get(2 * k + 1, -1)) for k in range(1, M.ngroups + 1)]
                    r = (st, j, groups)
                    break
            if r is not None:
                a, b, groups = r
        flags['emptyloop'] |= M.emptyloop
        if r is None:
            break
        did = True
        out.append(s[pos:a])
        allg = [(a, b)] + groups
        i = 0
        while i < len(rep):
            c = rep[i]
            if c == '\\' and i + 1 < len(rep):
                d = rep[i + 1]
                if d.isdigit() and d.isascii():
                    k = int(d)
                    if k < len(allg) and allg[k][0] >= 0 and allg[k][1] >= 0:
                        out.append(s[allg[k][0]:allg[k][1]])
                else:
                    out.append(d)
                i += 2
            else:
                out.append(c)
                i += 1
        pos = b
        if b <= a:                       # empty match: copy one character and move on
            out.append(s[pos:pos + 1])
            pos += 1
        if pos >= len(s) or not g:
            break
    if not did:
        return None, flags
    out.append(s[pos:])
    return ''.join(out), flags


def typed(text, delim):
    """how pattern/replacement text is typed between delimiters"""
    return text.replace(delim, '\\' + delim)


def make_case(idx):
    R = rng('c14', idx)
    kind = R.choice(['ascii', 'mixed', 'mixed'])
    words = ['foo', 'bar', 'Foo', 'a', 'ab', 'aaa', 'x', 'é', 'été', 'ب', '中', 'a1', '_', 'b', 'gag', 'g']
    nlines = R.randint(2, 6)
    lines = []
    for _ in range(nlines):
        toks = [R.choice(words + [' ', ' ', '.', '-', 'aa', 'foofoo', 'xfoo'] + (['/', '|', '"', '[', ']', 'a/b', '[ab]', ','] if idx % 4 == 0 else [])) for _ in range(R.randint(0, 7))]
        lines.append(''.join(toks))
    noic = R.random() < 0.4
    cmds = []
    prev_ast = None
    for _ in range(R.randint(1, 3)):
        k = R.random()
        if k < 0.45:
            ast = mr.rand_ast(R, depth=R.choice([0, 1, 1, 2]), alphabet=['a', 'b', 'o', 'f', 'x', 'é', 'A', ' ', '1', 'F'])
        elif k < 0.7:
            w = R.choice(['foo', 'a', 'ab', 'x', 'é', 'aa', 'o', 'g', 'ag'] + (['a/b', '/', '|', '"', '[', ']', 'a|', ','] if idx % 4 == 0 else []))
            parts = []
            if R.random() < 0.3:
                parts.append(('bol',))
            if R.random() < 0.35:
                parts.append(('wbeg',))
            parts.append(('lit', w))
            if R.random() < 0.3:
                parts.append(('wend',))
            if R.random() < 0.25:
                parts.append(('eol',))
            ast = parts[0] if len(parts) == 1 else ('cat', parts)
        elif k < 0.85:
            ast = R.choice([('rep', ('lit', 'x'), 0, -1), ('rep', ('lit', 'a'), 0, -1), ('bol',), ('eol',), ('rep', ('grp', ('lit', 'ab')), 0, 1), ('wbeg',), ('wend',),
                            ('cat', [('bol',), ('rep', ('lit', ' '), 0, -1)]), ('alt', ('grp', ('lit', 'a')), ('grp', ('lit', 'b'))),
                            ('cat', [('grp', ('any',)), ('grp', ('any',))]), ('cat', [('bol',), ('lit', 'a')]), ('cat', [('lit', '['), ('grp', ('rep', ('any',), 0, -1)), ('lit', ']')]), ('cat', [('lit', '['), ('grp', ('lit', 'a')), ('lit', 'b]'), ('grp', ('any',))]),
                            ('cat', [('grp', ('lit', 'a')), ('lit', '/'), ('grp', ('any',))]), ('rep', ('brk', False, [('range', 'a', 'c')]), 1, -1),
                            ('alt', ('cat', [('bol',), ('lit', 'a')]), ('lit', 'b')), ('alt', ('cat', [('bol',), ('grp', ('lit', 'x'))]), ('grp', ('lit', 'a'))), ('alt', ('bol',), ('lit', 'a')),
                            ('alt', ('lit', 'b'), ('cat', [('bol',), ('lit', 'a')])), ('alt', ('cat', [('bol',), ('rep', ('lit', 'a'), 0, -1)]), ('lit', 'o'))])      # (anchored first branch, free second one)
        else:
            ast = None          # empty pattern: reuse the previous one
            if prev_ast is None:
                ast = ('lit', 'a')
        rep = ''.join(R.choice(['X', 'yy', '\\0', '\\1', '\\2', '\\9', '\\\\', 'é', ' ', '', '[\\0]', '\\&', '&', '-', '中', '\\n', 'q', 'g', 'gg'] + (['|', '"', '/', ',', 'x|y', '#', ':'] if idx % 4 == 0 else [])) for _ in range(R.randint(0, 3)))
        g = R.random() < 0.55
        a = R.randint(1, nlines)
        b = R.randint(a, nlines)
        addr = R.choice(['%', '%d' % a, '%d,%d' % (a, b), '%d,%d' % (a, b)])
        delim = R.choice(DELIMS)
        base = aw = None
        if ast is not None and R.random() < 0.12:
            # the line is found by a pattern address of its own: `N` `/word/s/pat/rep/` - the address pattern selects the line,
            # the command's pattern is what gets replaced
            base = R.randint(1, nlines)
            aw = R.choice(['a', 'o', 'foo', 'b', 'x', 'é'])
            addr = '/%s/' % aw
            delim = R.choice([',', '#', ':'])
        cmds.append({'ast': ast, 'rep': rep, 'g': g, 'addr': addr, 'a': a, 'b': b, 'delim': delim, 'base': base, 'aw': aw, 'short': (not g) and R.random() < 0.2})
        if ast is not None:
            prev_ast = ast
    return {'lines': lines, 'noic': noic, 'cmds': cmds, 'idx': idx, 'via': R.choice(['stdin'] * 5 + ['so', 'reg'])}


def script_of(case):
    s = b''
    if case['noic']:
        s += b'se noic\n'
    body = b''
    for c in case['cmds']:
        d = c['delim']
        pat = '' if c['ast'] is None else mr.render(c['ast'])
        if d in pat.replace('\\' + d, '') and d != '/':
            d = c['delim'] = '/'
        line = '%ss%s%s%s%s%s%s\n' % (c['addr'], d, typed(pat, d), d, typed(c['rep'], d), '' if c.get('short') else d, 'g' if c['g'] else '')      # (short form: the closing delimiter may be left out)
        if c.get('base'):
            line = '%d\n' % c['base'] + line
        body += line.encode('utf-8')
    # the same commands typed, read from a sourced file, or executed from a register: a command ends at the end of its line everywhere
    via = case.get('via', 'stdin')
    if via == 'so' and len(body) < 480:
        case['extra_files'] = {'cmds': body}
        s += b'so cmds\n'
    elif via == 'reg' and len(body) < 480 and b'\n.\n' not in b'\n' + body:
        s += b'rs r\n' + body + b'.\n@r\n'
    else:
        s += body
    s += b'w! out\n'
    return s


def has_word_anchor(ast):
    if ast is None:
        return False
    t = ast[0]
    if t in ('wbeg', 'wend'):
        return True
    if t == 'grp':
        return has_word_anchor(ast[1])
    if t == 'cat':
        return any(has_word_anchor(x) for x in ast[1])
    if t == 'alt':
        return has_word_anchor(ast[1]) or has_word_anchor(ast[2])
    if t == 'rep':
        return has_word_anchor(ast[1])
    return False


def run_case(args):
    vi, idx = args
    case = make_case(idx)
    script = script_of(case)
    if len(max(script.split(b'\n'), key=len)) > 400:
        return ('skip', None, None, case)
    r, d = common.run_ex(vi, script, files=dict({'f1': gen.buf_bytes(case['lines'])}, **case.get('extra_files', {})), timeout=60)
    got = common.readf(d, 'out')
    common.rmcase(d)
    wit = {'index': idx, 'lines': case['lines'], 'script': script}
    rep = common.san_report(r)
    if rep:
        return (rep, 'sanitizer/crash during %s: %s' % (common.show(script, 200), r.err[-500:].decode('latin-1')), wit, case)
    if r.timed_out or got is None:
        return ('inconclusive', 'timeout or no output', wit, case)
    # model
    icase = not case['noic']
    cur = list(case['lines'])
    var = list(case['lines'])
    prev = None
    changed = False
    uses_word = False
    try:
        for c in case['cmds']:
            ast = c['ast'] if c['ast'] is not None else prev
            prev = ast
            uses_word |= has_word_anchor(ast)
            if c.get('base'):
                # first line after line `base` that contains the address word (no wrap-around); none: the command fails
                hit = [i for i in range(c['base'], len(cur)) if mr.Matcher(('lit', c['aw']), cur[i], icase).search() is not None]
                hitv = [i for i in range(c['base'], len(var)) if mr.Matcher(('lit', c['aw']), var[i], icase).search() is not None]
                if hit[:1] != hitv[:1]:
                    return ('inconclusive', 'variant diverged', wit, case)
                rng_ = range(hit[0], hit[0] + 1) if hit else range(0)
                if not hit:
                    prev = ('lit', c['aw'])      # the address search failed: its pattern is the last one used, :s never ran
            elif c['addr'] == '%':
                rng_ = range(0, len(cur))
            elif ',' in c['addr']:
                rng_ = range(c['a'] - 1, c['b'])
            else:
                rng_ = range(c['a'] - 1, c['a'])
            for i in rng_:
                for arr, variant in ((cur, None), (var, 'suffix')):
                    res, fl = model_subst(arr[i], ast, c['rep'], c['g'], icase, variant)
                    if fl['emptyloop']:
                        return ('inconclusive', 'unbounded loop on the empty string', wit, case)
                    if res is not None:
                        if '\n' in res:
                            return ('skip', None, None, case)      # replacement produced a line break: outside the model
                        if arr is cur and res != arr[i]:
                            changed = True
                        arr[i] = res
    except (mr.Budget, RecursionError):
        return ('inconclusive', 'reference matcher budget', wit, case)
    want = gen.buf_bytes(cur)
    try:
        got.decode('utf-8')
    except UnicodeDecodeError:
        return ('subst:invalid-utf8', 'script %s on %r produced invalid UTF-8: %r' % (common.show(script, 200), case['lines'], got[:120]), wit, case)
    if got != want:
        if uses_word and got == gen.buf_bytes(var):
            return ('subst:word-boundary-no-left-context@resume', 'script %s on %r: result equals the variant in which \\< / \\> are evaluated without left context at resumed positions: got %r, expected %r' % (
                common.show(script, 200), case['lines'], common.show(got, 200), common.show(want, 200)), wit, case)
        return ('subst:result', 'script %s on %r: got %r, expected %r' % (common.show(script, 200), case['lines'], common.show(got, 300), common.show(want, 300)), wit, case)
    return ('ok' if changed else 'ok-trivial', None, None, case)


def run(tier, V):
    vi = build('asan')
    n = 2500 if tier == 'quick' else 40000
    base = common.seed() * 15485863
    res = pmap(run_case, [(vi, base + i) for i in range(n)], procs=True)
    nontriv = 0
    stats = {}
    for key, what, wit, case in res:
        stats[key if key in ('ok', 'ok-trivial', 'skip', 'inconclusive') else 'violation'] = stats.get(key if key in ('ok', 'ok-trivial', 'skip', 'inconclusive') else 'violation', 0) + 1
        if key == 'ok':
            nontriv += 1
        elif key == 'inconclusive':
            V.inconclusive += 1
        elif key not in ('ok-trivial', 'skip'):
            V.violation(key, what, wit)
    cov = {'evaluations': n, 'distinct_nontrivial': nontriv, 'outcomes': stats,
           'rule': ('%d scripts of 1-3 :s commands (random ERE ASTs incl. empty-matching, anchored, word-boundary, groups that do not participate, empty pattern = previous; replacements with \\0-\\9, escapes, multi-byte; g on/off; '
                    'ranges; ignorecase on/off; several delimiters; the short form without closing delimiter; typed, sourced with :so, or run from a register with @r) over buffers of 2-6 ASCII/multi-byte lines, result file compared with the substitute model (whole-line context).  non-trivial = the model changed at least one line.' % n),
           'samples': [{'lines': c['lines'], 'script': script_of(c).decode('utf-8', 'replace')} for _, _, _, c in res[:3]]}
    assumptions = ['the reference matcher of C10 defines matches; cases whose pattern loops on the empty string or exceeds the model budget are inconclusive',
                   'with g the empty match at the very end of a line is not taken (neatvi\'s choice; the statement does not require it)',
                   'replacements that would insert a line break are skipped']
    return cov, assumptions


def REPLAY(w):
    return run_case((build('asan'), w['index']))[:2]
