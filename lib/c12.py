"""C12: the literal-pattern fast path is indistinguishable from the general regex engine.

Differential monitor: rstr_make/rstr_find vs rset_make(1,.)/rset_find on identical inputs inside
the ASan+UBSan probe (exhaustive over anchors x short literals x short lines x flags, plus random
longer cases and operator-insertion cases).  No model: the oracle is the other implementation.
"""
import os, re
import common
from common import pmap, rng, build, VERIF

PROBE = os.path.join(VERIF, 'probe', 'probe.c')


def hx(s):
    return (s.encode() if isinstance(s, str) else s).hex() or '-'


def classify(d):
    """d: parsed DIFF line fields -> key naming the disagreement class"""
    pat = bytes.fromhex(d['pat']).decode('utf-8', 'replace') if d.get('pat', '-') != '-' else ''
    line = bytes.fromhex(d['line']).decode('utf-8', 'replace') if d.get('line', '-') not in ('-', None) else ''
    kind = d.get('kind', 'compile')
    flg = int(d.get('flg', 0))
    feats = []
    body = pat
    if body.startswith('^'):
        body = body[1:]
        feats.append('bol')
    if body.startswith('\\<'):
        body = body[2:]
        feats.append('wbeg')
    if body.endswith('$') and not body.endswith('\\$'):
        body = body[:-1]
        feats.append('eol')
    if body.endswith('\\>'):
        body = body[:-2]
        feats.append('wend')
    if any(c in body for c in '|^'):
        feats.append('operator-in-literal')
    if body == '':
        feats.append('empty-literal')
    if flg & 4 and 'eol' in feats:
        feats.append('noteol')
    if flg & 2 and 'bol' in feats:
        feats.append('notbol')
    return 'fastpath-differs:kind%s:%s' % (kind, '+'.join(feats) or 'plain')


def parse_diffs(out):
    diffs = []
    for l in out.split('\n'):
        if l.startswith('DIFF'):
            d = dict(x.split('=', 1) for x in l.split()[1:] if '=' in x)
            d['raw'] = l
            diffs.append(d)
    return diffs


def run_enum(args):
    exe, lits, maxlit, lsyms, maxline, shard, nsh = args
    cmd = 'c12enum %s %d %s %d %d %d 100000\n' % (','.join(hx(x) for x in lits), maxlit, ','.join(hx(x) for x in lsyms), maxline, shard, nsh)
    r = common.run([exe], cmd.encode(), env=common.base_env('/tmp'), timeout=1800)
    out = r.out.decode('latin-1')
    bad = []
    for d in parse_diffs(out):
        bad.append((classify(d), d['raw'][:300], {'pattern_hex': d.get('pat'), 'line_hex': d.get('line'), 'detail': d['raw']}))
    m = re.search(r'DONE npat (\d+) ncmp (\d+) nfound (\d+) ncut (\d+) ndiff (\d+)', out)
    st = dict(zip(('npat', 'ncmp', 'nfound', 'ncut', 'ndiff'), map(int, m.groups()))) if m else {}
    rep = common.san_report(r)
    if rep:
        bad.append((rep, 'sanitizer/crash in c12enum shard %d: %s' % (shard, r.err[-800:].decode('latin-1')), {'shard': shard}))
    elif not m:
        bad.append(('probe:truncated', 'c12enum shard %d gave no DONE line rc=%s timed_out=%s' % (shard, r.rc, r.timed_out), {}))
    return st, bad


def run_ones(args):
    exe, cases = args
    i = 0
    bad = []
    n = 0
    while i < len(cases):
        text = ''.join('c12one %s %s\n' % (hx(p), hx(l)) for p, l in cases[i:])
        r = common.run([exe], text.encode(), env=common.base_env('/tmp'), timeout=600)
        out = r.out.decode('latin-1')
        k = 0
        for l in out.split('\n'):
            if l.startswith('DIFF'):
                d = dict(x.split('=', 1) for x in l.split()[1:] if '=' in x)
                bad.append((classify(d), l[:300], {'pattern_hex': d.get('pat'), 'line_hex': d.get('line'), 'detail': l}))
            elif l.startswith('one'):
                k += 1
        n += k
        if i + k >= len(cases):
            break
        rep = common.san_report(r)
        p, l = cases[i + k]
        bad.append((rep or 'probe:died', 'pattern %r line %r: %s' % (p, l, r.err[-600:].decode('latin-1')), {'pattern': p, 'line': l}))
        i += k + 1
    return n, bad


def run(tier, V):
    exe = build('asan', probe=PROBE)
    lits = ['a', 'B', '_', '-', 'é', '|', '^']
    lsyms = ['a', 'b', 'B', '_', '-', ' ', 'é', '|', '^']
    maxlit, maxline = (2, 4) if tier == 'quick' else (3, 5)
    nsh = 64
    res = pmap(run_enum, [(exe, lits, maxlit, lsyms, maxline, s, nsh) for s in range(nsh)])
    tot = {}
    for st, bad in res:
        for k, v in st.items():
            tot[k] = tot.get(k, 0) + v
        for key, what, wit in bad:
            V.violation(key, what, wit)
    # random longer literals/lines, and every operator inserted at every position of a literal
    R = rng('c12')
    cases = []
    words = ['foo', 'Foo', 'bar_1', 'été', 'ab', 'x', 'سلام', 'a-b', 'end', 'FOO', '😀', '😄a', 'x😃', '𝐀𝐁']      # (4-byte characters that differ in their last byte only)
    for _ in range(3000 if tier == 'quick' else 40000):
        w = R.choice(words)
        pat = ('^' if R.random() < 0.2 else '') + ('\\<' if R.random() < 0.4 else '') + w + ('\\>' if R.random() < 0.4 else '') + ('$' if R.random() < 0.2 else '')
        toks = [R.choice(words + [' ', ' ', '-', '_', '.', 'x', 'é']) for _ in range(R.randint(0, 8))]
        if R.random() < 0.7:
            toks.insert(R.randint(0, len(toks)), R.choice([w, w.upper(), w.lower(), w + w]))
        line = ''.join(toks) + '\n'
        cases.append((pat, line))
    for w in ['foo', 'ab', 'éx', '😀a']:
        for op in '\\.*+?[]{}()$|^':
            for pos in range(len(w) + 1):
                pat = w[:pos] + op + w[pos:]
                for line in [w + '\n', w[:pos] + op + w[pos:] + '\n', 'x' + w + w + '\n', w[:1] + '\n', '\n']:
                    cases.append((pat, line))
    # every ASCII character against itself and against the byte 0x20 away from it (for a letter: its other case), alone and inside a word;
    # the multi-byte pairs whose encodings differ in that bit only
    for c in range(0x21, 0x7f):
        ch = chr(c)
        if ch in '\\.*+?[]{}()$|^':
            continue
        for other in {ch, chr(c ^ 0x20), ch.swapcase()}:
            if other in '\n\x00':
                continue
            for pat, line in ((ch, other + '\n'), ('q' + ch, 'xQ' + other + ' q' + ch + '\n'), (ch + ch, ch + other + ch + ch + '\n'), ('\\<' + ch + 'a\\>', other + 'A ' + ch + 'a\n')):
                cases.append((pat, line))
    for a, b in (('é', 'É'), ('я', 'Я'), ('λ', 'Λ'), ('あ', 'ぢ'), ('ß', '\u00bf'), ('𝐀', '𝐠')):
        for pat, line in ((a, b + '\n'), (a, 'x' + b + a + '\n'), (b, a + '\n'), (a + 'z', b + 'Z ' + a + 'Z\n')):
            cases.append((pat, line))
    jobs = [(exe, cases[i:i + 800]) for i in range(0, len(cases), 800)]
    res = pmap(run_ones, jobs)
    nones = sum(r[0] for r in res)
    for r in res:
        for key, what, wit in r[1]:
            V.violation(key, what, wit)
    cov = {'enum_stats': tot, 'random_and_operator_cases': nones, 'exhaustive': True,
           'evaluations': tot.get('ncmp', 0) + nones * 8, 'distinct_nontrivial': tot.get('nfound', 0),
           'rule': ('ALL patterns [^][\\<] literal [\\>][$] with literal = every string of <=%d symbols over {a,B,_,-,e-acute,|,^} x ALL newline-terminated lines of <=%d symbols over '
                    '{a,b,B,_,-,space,e-acute,|,^} x icase x NOTBOL x NOTEOL, both paths compared inside the probe (found/not found, [so,eo), groups 1..2 must be written as unset); '
                    '+ %d random longer literal/line cases and every operator character inserted at every position of three literals + every ASCII character against itself, its other case and the byte 0x20 away, and multi-byte pairs that differ in that bit.  comparisons with a depth cut are discarded.  '
                    'non-trivial = both paths found a match and offsets were compared.' % (maxlit, maxline, nones)),
           'samples': [{'pattern': '\\<a_\\>$', 'line': 'b a_\n'}, {'pattern': cases[0][0], 'line': cases[0][1]}, {'pattern': cases[-7][0], 'line': cases[-7][1]}]}
    assumptions = ['the general engine (rset_make/rset_find) is the reference for the fast path; whether a pattern took the fast path is not observable, so every pattern of the family is compared',
                   'lines are newline-terminated as the statement says']
    return cov, assumptions
