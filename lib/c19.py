"""C19: the terminal shows a true window of the buffer with the cursor on its character.

Offline trace checker: the byte stream `vi -v` writes to its terminal is recorded and interpreted
by a terminal emulator.  Checkpoints are ^L^L typed between commands: the screen just before the
first ^L (built by incremental scrolling / partial redraws) must equal the screen after the full
repaint it forces - rows and cursor.  At the last checkpoint a twin run (same keys, then a marker
inserted at the cursor and :w) gives the buffer and cursor position: the rows must be a contiguous
window (exists top, left) of the buffer and the terminal cursor must be on the marker's cell.
"""
import re
import common, gen
import term_emu
import c17
from common import pmap, rng, build

MARK = '\ue000'          # private-use code point that no generated text contains
CKPT = re.compile(rb'\x1b\[r\x1b\[\d+;1H\x1b\[K\x1b\[m\x1b\[(?:\d+;\d+)?r')
SCROLLS = ['\x05', '\x19', '\x04', '\x15', '\x06', '\x02', 'z\n', 'z.', 'z-', '3\x05', '2\x19', 'H', 'L', 'M', 'G', '1G', '5G', '$', '0', '20|', '60|', '99|']
WINCMDS = ['\x17s', '\x17j', '\x17k', '\x17o', '\x17c', '\x17x']


def make_case(idx):
    R = rng('c19', idx)
    kind = R.choice(['ascii', 'ascii', 'ltr', 'mixed'])
    rows, cols = R.choice([(4, 20), (6, 30), (8, 40), (10, 40), (12, 60), (24, 80), (24, 80), (5, 10), (3, 10)])
    shape = R.random()
    if shape < 0.1:
        lines = []
    elif shape < 0.35:
        lines = [gen.rand_line(R, kind) for _ in range(R.randint(1, max(1, rows - 2)))]
    else:
        lines = [gen.rand_line(R, kind) for _ in range(R.randint(rows, rows * 4))]
    if R.random() < 0.35 and lines:
        for _ in range(R.randint(1, 3)):
            lines[R.randrange(len(lines))] = gen.long_line(R, kind, R.choice([cols, cols * 2, cols * 3]))
    fname = 'f1'
    if R.random() < 0.25 and lines:
        # another file type: its highlight patterns run over every drawn line (attributes only; the cells must not change)
        fname = R.choice(['t.c', 't.sh', 't.go', 't.py', 't.tex', 't.ms', 'Makefile', 't.diff', 'letter', 't.bib', 't.nm', 'ls'])
        code = ['#include <stdio.h>', 'int main(void) { return foo("s\\"", 1); } /* c */ // x', 'def foo(x): # c', 'func foo() {', 'foo() {', '.de foo', '\\fBbold\\fP \\*(xx', '\\section{a} % c $x$',
                'foo: bar', '\t$(CC) -o $@ $<', '+added', '-removed', '@@ -1,2 +1,3 @@', 'From: a@b', '> quoted', '@article{key,', '"unterminated', '/* open comment']
        for _ in range(R.randint(1, 6)):
            lines[R.randrange(len(lines))] = R.choice(code)
    prog = []
    pre = R.choice(['', '', ':se nohl\n', ':se hll\n', ':se hll\n:se nohl\n', ':se noai\n'])
    n = R.randint(5, 30)
    wins = R.random() < 0.15 and rows >= 6
    for _ in range(n):
        k = R.random()
        if k < 0.3:
            prog.append(R.choice(SCROLLS))
        elif k < 0.55:
            prog.append(gen.vi_motion(R))
        elif k < 0.9:
            keys, cls = gen.vi_edit(R, kind, filters=False)
            if cls == 'ex':
                keys = R.choice([':d\n', ':s/a/A/\n', ':pu\n', ':2\n', ':$\n', ':1,2d\n', ':u\n', ':1d|s/zzzz/y/\n', ':s/$/!/|99p\n', ':$d|nosuchcmd\n', ':pu|/zzzz/\n'])
            prog.append(keys)
        elif k < 0.95:
            prog.append(R.choice(['u', '\x12', 'u', '.']))
        elif wins:
            prog.append(R.choice(WINCMDS))
        else:
            prog.append(R.choice(SCROLLS))
    horiz = False
    if R.random() < 0.1 and lines:
        # horizontal family: long lines, jumps to columns around the window width and its multiples, from both sides
        for _ in range(R.randint(1, 3)):
            lines[R.randrange(len(lines))] = gen.long_line(R, R.choice(['ascii', kind]), cols * R.choice([2, 3, 4]))
        horiz = True
        lines[0] = gen.long_line(R, 'ascii', cols * R.choice([2, 3, 4]))      # the cursor starts on a long line
        if R.random() < 0.4:
            # rows of double-width characters at both parities: wherever the window's left edge falls, it cuts some of them in two
            for par in R.sample([0, 1, 2, 3], R.randint(1, 3)):
                wide = 'x' * par + ''.join(R.choice(['漢', '字', '日本', 'ａ', '語 ']) for _ in range(cols * 2))
                if R.random() < 0.5:
                    lines[0] = wide
                else:
                    lines.insert(R.randint(1, min(len(lines), max(1, rows - 2))), wide)
        targets = [cols - 1, cols, cols + 1, cols + 2, cols // 2, cols + cols // 2, cols + cols // 2 + 1, 2 * cols, 2 * cols + 1, 3 * cols, 1]
        prog = []
        for _ in range(R.randint(6, 24)):
            k = R.random()
            if k < 0.45:
                prog.append('%d|' % R.choice(targets))
            elif k < 0.6:
                prog.append(R.choice(['$', '0', '$', '^']))
            elif k < 0.8:
                prog.append(R.choice(['w', 'b', 'e', '3l', '3h', 'l', 'h', 'j', 'k', '5w', '5b']))
            else:
                prog.append(R.choice(['x', 'rZ', 'iab\x1b', 'D', 'u', '~', 'dw', 'A!\x1b']))
        if R.random() < 0.3:
            # from far right back to the columns around the first window's right edge
            prog = ['$', '%d|' % R.choice([cols + 1, cols, cols + 2])] + prog
    rtl = False
    if not horiz and R.random() < 0.06:
        # right-to-left base direction with single-byte text (no reordering, no shaping): the rows are the mirror image of a window
        # of the line, counted from the right edge; long lines scroll horizontally
        rtl = True
        abc = 'abcdefghijklmnopqrstuvwxyz0123456789ABCDEFGHIJKLMNOPQRSTUVWXYZ'
        lines = [(abc[k:] + abc * 6)[:R.choice([3, cols - 1, cols, cols + 1, 2 * cols, 3 * cols + 5])] for k in R.sample(range(20), R.randint(1, min(4, rows - 1)))]
        pre = ':se td=-2\n'
        fname = 'f1'
        targets = [1, 2, cols - 1, cols, cols + 1, cols + cols // 2, 2 * cols, 2 * cols + 1, 3 * cols]
        prog = [R.choice(['%d|' % R.choice(targets), '$', '0', 'l', 'h', '3l', '3h', 'j', 'k', 'w', 'b']) for _ in range(R.randint(1, 8))]
        if R.random() < 0.4:
            # a prompt opened and given up in between (prompts are drawn left-to-right; the text direction is the buffer's again afterwards)
            prog.insert(R.randint(0, len(prog)), R.choice([':', '/', '?x', '!!', ':se', '/ab']))
    if not horiz and not rtl and R.random() < 0.06:
        # a second buffer with unsaved changes: :wq / :x / :q are refused and switch to it - the window must show it
        prog = prog[:R.randint(0, 4)] + [R.choice(['x', 'dd', 'ix\x1b', 'J']), ':e! f2\n'] + prog[4:R.randint(4, 8)] + [R.choice([':wq\n', ':x\n', ':q\n', ':wq\n'])] + prog[8:11]
    if not horiz and not rtl and R.random() < 0.06 and len(lines) > rows:
        # insert mode on the bottom row: help key (^A), then Enter scrolls the window from within the insert
        prog = prog[:R.randint(0, 5)] + [R.choice(['LAX\x01\nY\x1b', 'Go\x01a\nb\x1b', 'LoZ\x01\n\nW\x1b', 'LA\x01\x01\nq\x1b'])] + prog[5:8]
    tags = None
    if not horiz and not rtl and R.random() < 0.07 and lines:
        # tag jumps (^] on a word, ^T back, :ta): into the other file, within the file, and through entries whose pattern no longer
        # matches anything (the jump then stops on line 1 of the file it already switched to)
        lines[0] = 'foo bar hello baz World abc'
        tags = ''.join('%s\t%s\t%s\n' % t for t in [('World', 'f2', '3'), ('abc', fname, '$'), ('bar', 'f2', '/no such line/'), ('baz', fname, '2'), ('foo', 'f2', '/its line/'), ('hello', fname, '/zzzz/')])
        jump = lambda: R.choice(['1G', '1Gw', '1G2w', '1G3w', '1G4w', '1G5w']) + '\x1d'
        prog = prog[:R.randint(0, 3)] + [jump()] + prog[3:5] + [R.choice(['\x14', '\x14', ':po\n', jump(), ':ta bar\n', ':ta hello\n', ':ta foo\n'])] + prog[5:7] + [R.choice(['\x14', jump(), ':e #\n', '\x14\x14'])] + prog[7:9]
    raw = R.random() < 0.12 or rtl
    if horiz and R.random() < 0.7:
        # (the per-command normalisation is itself a motion and re-centres the view: most of this family runs without it and ends in a jump)
        raw = True
        prog = prog[:R.randint(1, 8)] + [R.choice(['$', '$', '%d|' % R.choice(targets)]), R.choice(['%d|' % R.choice(targets)] * 3 + ['\x05', '\x05\x05', 'H\x05\x05', '1G%dl\x05\x05' % R.choice([5, cols // 2, cols - 2]), 'L\x19\x19'])]
    if raw and not horiz and not rtl and R.random() < 0.5:
        # commands that move the cursor without redrawing anything
        prog.append(R.choice(['yb', 'y0', 'yB', 'y^', 'yFo', 'yTa', 'y2h', 'yk', 'y{', 'ma', '\x07']))
    return {'lines': lines, 'rows': rows, 'cols': cols, 'pre': pre, 'prog': prog, 'idx': idx, 'kind': kind, 'raw': raw, 'horiz': horiz, 'fname': fname, 'rtl': rtl, 'tags': tags}


def cells_of(line, W):
    """list of cell contents for a line as neatvi lays it out left to right; None if not 'simple'"""
    cells = []
    for ch in line:
        c = ord(ch)
        if ch == '\t':
            w = 8 - len(cells) % 8
            cells.extend([(' ', 'tab')] + [('', 'tab')] * (w - 1))
            continue
        if c < 32 or c == 127 or W.isbell(c) or c in W.ph or W.uc_wid(c) == 0:
            return None
        if 0x590 <= c <= 0x8ff or 0xfb00 <= c <= 0xfeff:
            return None        # right-to-left scripts: reordered
        w = W.uc_wid(c)
        if w != term_emu.cell_width(ch):
            return None
        cells.append((ch, 'ch'))
        if w == 2:
            cells.append(('', 'ch'))
    return cells


def render_row(line, left, cols, W):
    cells = cells_of(line, W)
    if cells is None:
        return None
    # group cells into characters
    out = [' '] * cols
    i = 0
    while i < len(cells):
        j = i + 1
        while j < len(cells) and cells[j][0] == '':
            j += 1
        if i >= left and j <= left + cols:
            out[i - left] = cells[i][0]
            for k in range(i + 1, j):
                out[k - left] = ' ' if cells[i][1] == 'tab' else ''
        i = j
    return ''.join(out).rstrip(' ')


def col_span(line, off, W):
    cells = cells_of(line, W)
    if cells is None:
        return None
    starts = [i for i, c in enumerate(cells) if c[0] != '' or False]
    # starts of characters: a cell that is not a continuation
    starts = []
    i = 0
    while i < len(cells):
        starts.append(i)
        j = i + 1
        while j < len(cells) and cells[j][0] == '':
            j += 1
        i = j
    if not starts:
        return (0, 1)
    if off >= len(starts):
        off = len(starts) - 1
    a = starts[off]
    b = starts[off + 1] if off + 1 < len(starts) else len(cells)
    return (a, b)


def run_case(args):
    vi, idx, W = args
    case = make_case(idx)
    keys = case['pre'].encode()
    # NORM: 'mq`q' jumps to a mark set at the cursor itself; like any motion it refreshes the remembered column,
    # which ^L would refresh as well.  Without it ^L would change editor state (see DESIGN.md, C19) and could
    # not serve as a pure repaint.  Raw programs (no NORM, one checkpoint at the end) look at the un-normalised screen.
    NORM = b'mq`q'
    prefixes = []        # keys up to and including checkpoint j
    if case['raw']:
        keys += b''.join(k.encode() + b'\x1b' for k in case['prog']) + b'\x0c\x0c'
    else:
        for k in case['prog']:
            keys += k.encode() + b'\x1b' + NORM + b'\x0c\x0c'
            prefixes.append(keys)
    files = {case['fname']: gen.buf_bytes(case['lines']), 'f2': b'second file\nits line 2\n\tthird\n'}
    if case.get('tags'):
        files['tags'] = case['tags'].encode()
    r, d = common.run_vi(vi, keys, files=files, args=[case['fname']], timeout=90, lines=case['rows'], cols=case['cols'])
    common.rmcase(d)
    wit = {'index': idx, 'rows': case['rows'], 'cols': case['cols'], 'lines': case['lines'], 'program': case['prog'], 'pre': case['pre']}
    rep = common.san_report(r)
    if rep:
        return (rep, 'sanitizer/crash: %s' % r.err[-400:].decode('latin-1'), wit, 0, 0)
    if r.timed_out:
        return ('inconclusive', None, wit, 0, 0)
    out = r.out
    marks = [m for m in CKPT.finditer(out)]
    # the first marker-like sequence is term_init at start-up (no term_done before it): CKPT needs the full pair, so all matches are ^L's
    scr = term_emu.Screen(case['rows'], case['cols'])
    pos = 0
    nck = 0
    nontriv = 0
    last = None
    finals = []
    for j in range(0, len(marks) - 1, 2):
        m1, m2 = marks[j], marks[j + 1]
        scr.feed(out[pos:m1.start()])
        top, bot = scr.top, scr.bot
        s1 = [scr.row_text(i) for i in range(case['rows'])]
        c1 = (scr.r, scr.c)
        grid1 = [row[:] for row in scr.g] if case.get('rtl') else None
        scr.feed(out[m1.start():m2.start()])
        s2 = [scr.row_text(i) for i in range(case['rows'])]
        c2 = (scr.r, scr.c)
        pos = m2.start()
        nck += 1
        cmdno = j // 2
        if case['raw']:
            final = (s1, c1, top, bot)
            break
        # split windows: the inactive window is a snapshot that neatvi refreshes when it becomes active again, so its rows may
        # lag behind the buffer; but a command in the active window must not PAINT on them: they stay as they were before it
        cmdkeys = case['prog'][cmdno] if cmdno < len(case['prog']) else ''
        if last is not None and (top > 0 or bot < case['rows'] - 2) and not cmdkeys.startswith(('\x17', ':')) and '\x0c' not in cmdkeys:
            outside = [i for i in range(0, case['rows'] - 1) if not (top <= i <= bot + 1)]       # (row bot+1 is the active window's own status line)
            diff = [i for i in outside if s1[i] != last[i]]
            if diff:
                return ('screen:painted-outside-window', 'window %dx%d split, active rows %d..%d, command #%d %r: row %d of the other window changed from %r to %r' % (
                    case['rows'], case['cols'], top, bot, cmdno, cmdkeys, diff[0], last[diff[0]], s1[diff[0]]), wit, nck, nontriv)
        if s1[top:bot + 1] != s2[top:bot + 1]:
            diff = [i for i in range(top, bot + 1) if s1[i] != s2[i]]
            return ('screen:stale-row', 'window %dx%d, after command #%d %r (program %s): row %d shows %r, a full repaint draws %r' % (
                case['rows'], case['cols'], cmdno, case['prog'][cmdno] if cmdno < len(case['prog']) else '?', [common.show(p, 20) for p in case['prog'][:cmdno + 1]][-8:],
                diff[0], s1[diff[0]], s2[diff[0]]), wit, nck, nontriv)
        if c1 != c2:
            return ('screen:cursor-differs-from-repaint', 'window %dx%d, after command #%d %r: terminal cursor at %s, after a full repaint at %s' % (
                case['rows'], case['cols'], cmdno, case['prog'][cmdno] if cmdno < len(case['prog']) else '?', c1, c2), wit, nck, nontriv)
        if last is not None and s2 != last:
            nontriv += 1
        last = s2
        final = (s2, c2, top, bot)
        finals.append(final)
    if nck == 0:
        return ('inconclusive', None, wit, 0, 0)
    if scr.unknown:
        return ('screen:unknown-sequence', 'the editor emitted something the emulator does not know: %r' % scr.unknown[:3], wit, nck, nontriv)
    if case.get('rtl'):
        return rtl_check(vi, case, files, keys[:-2], grid1, final, wit, nck, nontriv)
    if any('\x17' in p for p in case['prog']):
        return (None, None, None, nck, nontriv)      # split windows: the window clause is checked for single-window runs only
    if case.get('horiz') and len(finals) == len(prefixes):
        # horizontal family: the window clause at EVERY checkpoint (one twin run per prefix)
        for j in range(len(finals) - 1):
            res = window_check(vi, case, files, prefixes[j], finals[j], W, wit, nck, nontriv, j)
            if res[0]:
                return res
            nontriv += 1
    # twin run for the last checkpoint: buffer and cursor
    return window_check(vi, case, files, keys[:-2] if case['raw'] else keys, final, W, wit, nck, nontriv, len(case['prog']) - 1)


def rtl_check(vi, case, files, keys, grid, final, wit, nck, nontriv):
    """right-to-left base direction, single-byte lines: row r shows, from the right edge leftwards, the characters left.. of its
    line (one common left for all rows), and the terminal cursor is on the cell of the character commands act on"""
    keys2 = keys + ('i' + MARK + '\x1b:w! out\n').encode()
    r2, d2 = common.run_vi(vi, keys2, files=files, args=[case['fname']], timeout=90, lines=case['rows'], cols=case['cols'])
    got = common.readf(d2, 'out')
    common.rmcase(d2)
    if got is None or r2.timed_out:
        return (None, None, None, nck, nontriv)
    blines = got.decode('utf-8', 'replace').split('\n')[:-1]
    mpos = [(i, l.index(MARK)) for i, l in enumerate(blines) if MARK in l]
    if len(mpos) != 1:
        return (None, None, None, nck, nontriv)
    mr_, mo = mpos[0]
    blines = [l.replace(MARK, '') for l in blines]
    s1, c1, top, bot = final
    cols = case['cols']
    cells = lambda row: ''.join(x if x != '' else ' ' for x in grid[row])
    for t in range(len(blines)):
        if not (t <= mr_ <= t + bot - top):
            continue
        for left in range(0, max(len(l) for l in blines) + 1):
            ok = True
            for i in range(bot - top + 1):
                bi = t + i
                src = blines[bi] if bi < len(blines) else '~'
                exp = ''.join(src[left + (cols - 1 - x)] if 0 <= left + (cols - 1 - x) < len(src) else ' ' for x in range(cols))
                if cells(top + i) != exp:
                    ok = False
                    break
            if ok:
                want_col = cols - 1 - (min(mo, max(0, len(blines[mr_]) - 1)) - left)
                if c1 == (top + mr_ - t, want_col):
                    return (None, None, None, nck, nontriv + 1)
                return ('screen:cursor-cell', 'window %dx%d, right-to-left base direction (td=-2), after %s: rows are the mirrored window top=%d left=%d, the character commands act on (line %d offset %d, %r) is drawn in column %d but the terminal cursor is at %s' % (
                    case['rows'], cols, [common.show(p, 12) for p in case['prog']], t, left, mr_ + 1, mo, blines[mr_][mo:mo + 1], want_col, c1), wit, nck, nontriv)
    return ('screen:not-a-window', 'window %dx%d, right-to-left base direction (td=-2), after %s: the rows %r are not the mirror image of any window of %r' % (
        case['rows'], cols, [common.show(p, 12) for p in case['prog']], [cells(i).rstrip() for i in range(top, bot + 1)], blines), wit, nck, nontriv)


def window_check(vi, case, files, keys, final, W, wit, nck, nontriv, upto):
    prog_all = case['prog']
    case = dict(case, prog=prog_all[:upto + 1])
    keys2 = keys + ('i' + MARK + '\x1b:w! out\n').encode()
    r2, d2 = common.run_vi(vi, keys2, files=files, args=[case['fname']], timeout=90, lines=case['rows'], cols=case['cols'])
    got = common.readf(d2, 'out')
    common.rmcase(d2)
    if got is None or r2.timed_out:
        return (None, None, None, nck, nontriv)
    try:
        txt = got.decode('utf-8')
    except UnicodeDecodeError:
        return (None, None, None, nck, nontriv)
    blines = txt.split('\n')[:-1] if txt.endswith('\n') else txt.split('\n')
    mpos = [(i, l.index(MARK)) for i, l in enumerate(blines) if MARK in l]
    if len(mpos) != 1:
        return (None, None, None, nck, nontriv)
    mr_, mo = mpos[0]
    blines = [l.replace(MARK, '') for l in blines]
    s2, c2, top, bot = final
    nrows = bot - top + 1
    maxw = max([len(cells_of(l, W) or []) for l in blines] + [0])
    if any(cells_of(l, W) is None for l in blines):
        return (None, None, None, nck, nontriv)
    found = None
    for t in range(0, max(1, len(blines))):
        if not (t <= mr_ < t + nrows):
            continue
        for left in range(0, maxw + 1):
            ok = True
            for i in range(nrows):
                bi = t + i
                exp = render_row(blines[bi], left, case['cols'], W) if bi < len(blines) else (render_row('~', left, case['cols'], W) if bi else '')
                if exp != s2[top + i]:
                    ok = False
                    break
            if ok:
                a, b = col_span(blines[mr_], mo, W) if blines else (0, 1)
                if c2[0] == top + (mr_ - t) and (a - left <= c2[1] < max(b, a + 1) - left):
                    found = (t, left)
                    break
                found = found or ('rows-only', t, left, (a, b))
        if found and found[0] != 'rows-only':
            break
    if found is None:
        return ('screen:not-a-window', 'window %dx%d: after %s the text rows %r are not a contiguous window (any top/left containing the cursor line %d) of the buffer %r' % (
            case['rows'], case['cols'], [common.show(p, 20) for p in case['prog']][-6:], s2[top:bot + 1], mr_ + 1, blines[:12]), wit, nck, nontriv)
    if found[0] == 'rows-only':
        _, t, left, span = found
        if case['raw'] and span[1] <= left:
            return ('screen:cursor-char-scrolled-out:sticky-column', 'window %dx%d, un-normalised screen after %s: the rows are the window top=%d left=%d of the buffer, but the character commands act on (line %d offset %d, cells %s) '
                    'lies left of the window: the view follows the remembered column (set by j/k/| beyond the end of a shorter line), not the cursor' % (
                        case['rows'], case['cols'], [common.show(p, 20) for p in case['prog']][-5:], t, left, mr_ + 1, mo, span), wit, nck, nontriv)
        return ('screen:cursor-cell', 'window %dx%d: rows match top=%d left=%d but the terminal cursor %s is not on the cell of the character commands act on (line %d offset %d, cells %s)' % (
            case['rows'], case['cols'], t, left, c2, mr_ + 1, mo, span), wit, nck, nontriv)
    return (None, None, None, nck, nontriv + 1)


def run(tier, V):
    vi = build('asan')
    W = c17.Widths()
    n = 2500 if tier == 'quick' else 30000
    base = common.seed() * 982451653 % (1 << 40)
    res = pmap(run_case, [(vi, base + i, W) for i in range(n)], procs=True)
    nck = sum(r[3] for r in res)
    nontriv = sum(r[4] for r in res)
    for key, what, wit, _, _ in res:
        if key == 'inconclusive':
            V.inconclusive += 1
        elif key:
            V.violation(key, what, wit)
    c0 = make_case(base)
    cov = {'evaluations': nck, 'distinct_nontrivial': nontriv, 'programs': n, 'checkpoints': nck,
           'rule': ('%d programs of 5-30 commands (motions, ^E ^Y ^D ^U ^F ^B z-commands, edits, puts, joins, undo/redo, ex commands, window commands, tag jumps incl. stale entries) x buffers empty / shorter / longer than the window, long lines (horizontal scroll; rows of double-width characters; right-to-left windows with given-up prompts) '
                    'x windows 3x10 .. 24x80 x hl/hll on/off x 25%% other file types (their highlight patterns).  after EVERY command a ^L^L checkpoint: emulated screen before the repaint == after it (rows of the active window and cursor); at the last checkpoint (for the 10%% horizontal-scroll programs - long lines, jumps to columns around multiples of the window width - at every checkpoint) a twin run gives buffer and cursor: '
                    'rows must be a contiguous window containing the cursor line and the terminal cursor must be on the marker\'s cell.  non-trivial = a checkpoint whose screen differs from the previous one (something was redrawn).' % n),
           'samples': [{'window': (c0['rows'], c0['cols']), 'program': [common.show(p, 20) for p in c0['prog'][:10]]}]}
    assumptions = ['a VT100-style terminal: CUP, CR, LF with scroll region, CUF/CUB, EL, IL/DL, DECSTBM, SGR (the complete set term.c emits)',
                   'the message row is excluded; the window clause is checked only for buffers of simple content (printable, tabs, wide CJK, no RTL/zero-width) and single-window runs',
                   '^L does not change editor state other than forcing a full repaint']
    return cov, assumptions


def REPLAY(w):
    return run_case((build('asan'), w['index'], c17.Widths()))[:2]
