"""C05: no memory errors, crashes or hangs for any command stream over UTF-8 text.

Sanitizer fuzzing of the real binary (ASan+UBSan build): grammar-generated vi and ex programs,
their mutations, the mutated test scripts and hand-written odd-but-legal seeds x buffer contents
x window sizes x start modes.  Oracle: sanitizer report / death by signal / watchdog (confirmed
by a re-run) before the quit at the end of the stream.
"""
import os, subprocess, glob
import common, gen
from common import pmap, rng, build

WINDOWS = [(2, 2), (2, 40), (3, 3), (5, 20), (10, 40), (24, 80), (24, 80), (60, 200)]


def drop_priv():
    try:
        os.setgroups([])
        os.setgid(65534)
        os.setuid(65534)
    except Exception:
        pass


EX_MISC = ['se ai', 'se noai', 'se ic', 'se noic', 'se hl', 'se nohl', 'se hll', 'se lim=0', 'se lim=3', 'se lim=256', 'se td=2', 'se td=-2', 'se td=1', 'se td=-1', 'se td=0',
           'se order=0', 'se order=1', 'se order=2', 'se shape', 'se noshape', 'se hist=0', 'se hist=3', 'se hist=100', 'se ru=0', 'se ru=1', 'se ru=2', 'se ru=4', 'se aw', 'se noaw', 'se wa', 'se nowa',
           'se foo', 'se', 'se lim=-1', 'se td=99', 'se hist=-5',
           'b', 'b 1', 'b 2', 'b +', 'b -', 'b %', 'b #', 'b ^', 'b !', 'b ~', 'b 99', 'b x', 'e f2', 'e! f2', 'e f3', 'e #', 'e!', 'e', 'e %', 'e +2 f2', 'e +/a f2', 'ew f2', 'ew! f3',
           'w', 'w! out', 'w out', 'w f3', '1,2w! out', 'w !cat', 'w !false', 'r f2', 'r !echo hi', 'r nosuch', '0r f2', '$r f2', 'r', 'n', 'n!', 'prev', 'so src', 'so nosuch', 'so',
           '!true', '!false', '!echo hi', '1,2!sort', '%!cat', '%!false', 'make x', 'rx a tr a-z A-Z', 'rx a false', 'rx', 'rk a nosock', 'rk',
           'ya', 'y a', 'y A', '1,2y b', 'pu', 'pu a', 'pu b', 'pu z', '0pu a', '$pu', 'pu \\x', 'y \\x', '@a', '@z', '@', 'ra a', 'ra', '@@', '1,2@a',
           'ft', 'ft c', 'ft py', 'ft nosuch', 'cm', 'cm fa', 'cm! fa', 'cm en', 'cm nosuch', 'ta foo', 'ta main', 'ta nosuch', 'tn', 'tp', 'po', 'tf',
           'k a', 'ka', '2ka', 'k', "'a", "'ap", "'a,'bd", "'z", '=', '$=', '.=', '0=', 'p', '1,$p', '%p', '0p', '99p', '$+1p', '1,0p', '2,1p', '.,+3p', '-5p', '/a/p', '?a?p', '/zzz/p', '//p', '/a/;/b/p',
           '', ' ', ':', '::', '|', '||', 'd|d', 'p|p|p', '"comment', 'p "c', 'u', 'u', 'redo', 'redo', 'u|u', 'ec', 'ec hi', 'ec %', 'ec #', 'unknowncmd', 'zz', '1', '$', '0', '5', '+', '-', '+5', '-5',
           's', 's/a', 's/a/', 's/a/b', 's//x/', 's/a/b/g', '&', '~', 's/\\(/x/', 's/(/x/', 's/[/x/', 's/a{3,1}/x/', 's/a{1,200}/x/', 's/x{,1000}/y/', 's/a{0,129}//', 'rs a\n@a\n.\n@a', 'rs a\n@b\n@a\n.\nrs b\np\n.\n@a', 's/a/\\1/', 's/(a)|b/\\1\\2\\9/g', 's/x*/-/g', 's/$/\\n/', 's/^/\\//',
           'g', 'g/', 'g/a', 'g/a/', 'g//d', 'g/a/g/b/d', 'g/a/g/b/g/c/p', 'g/a/a', 'g/a/i', 'g/a/c', 'g/./d|u', 'g/a/u', 'g/a/e f2', 'g/a/b 2', 'v/a/d', 'g!/a/d', 'g/a/s//x/|s/x/y/', 'g/a/-1d', 'g/a/+1d', 'g/a/1,$d',
           'g/./g/./g/./g/./g/./g/./g/./g/./1,$g/./p', 'g/./g/./g/./g/./g/./g/./g/./g/./g/./g/./g/./g/./g/./g/./g/./g/./g/./g/./g/./g/./g/./g/./g/./g/./g/./g/./g/./g/./g/./g/./g/./g/./g/./s/$/!/', 's/(((a{128}){128}){128}){64}/x/', 'g/(((a{128}){128}){128}){128}/p', '/((((a{128}){128}){128}){16}){9}/p', 's/(((a{0,128}){0,128}){0,128}){0,77}//', 'g/^abcdefgh/p', 'v/^hello World$/d', '%s/^abc$/x/', '%s/^foo_bar\\>/x/', '/^abcdefghijkl/p', '?^\\<foobarbaz$?p', 'g/xxxxxxxxxxxxxxxxxxxx$/p', '%s/\\<abcdefghijklmnop\\>//g',
           'a', 'i', 'c', '0a', '0i', '0c', '$a', '1,2c', '99a', 'a|p', 'rs a', 'rs', 'rs \\x']

VI_ODD = ['/^abcdefgh\n', '?^abc$\n', '/^foo_bar_baz\\>\n', '\x1b', ':\x1b', '/\x1b', '?\x1b', '!\x1b', 'd\x1b', 'c\x1b', '"\x1b', '"ad\x1b', 'r\x1b', 'f\x1b', 'm\x1b', "'\x1b", '`\x1b', 'z\x1b', 'g\x1b', 'Z\x1b', '@\x1b', 'q\x1b', '\x17\x1b', '[\x1b', ']\x1b',
          '[[', ']]', '3[[', 'gg', 'gd', 'gf', 'gl', 'ga', 'gu\x1b', 'g~~', '\x1d', '\x14', '\x17s', '\x17j', '\x17k', '\x17o', '\x17c', '\x17x', '\x17s\x17s', '\x17gf', '\x17gl', '\x17gd', '\x17\x1d', '\x17q1',
          'q1', 'q2', 'qa', 'qZ', 'q\n', 'zj', 'zk', 'zJ', 'zK', 'zD', 'z>', 'z<', '2z>', '2z<', 'ze', 'zf', '\x1e', 'ZQ', '@a', '@@', '@:', '@.', '@/', '@"', '5@a', '"ayy@a', '".p', '":p', '"/p', '"%p', '"#p', '"^p', '";p', '"\\ap',
          '99999999999G', '0', '00', '1G0i\x1b', 'Gdd', 'ggdG', ':%d\n', 'dGu', 'dGp', 'dGP', 'dGi\x1b', 'dGo\x1b', 'dGJ', 'dGx', 'dGr', 'dG~', 'dG.', 'dG>>', 'dG!!cat\n', 'dG:s/a/b/\n', 'dG:1\n', 'dG\x07', 'dG\x01',
          'i\x12a\x1b', 'i\x12\x1b', 'i\x10\x1b', 'i\x01\x1b', 'i\x01\x01\x1b', 'i\x0bo/\x1b', 'i\x0b\x0b\x1b', 'i\x0b\x1b', 'i\x16\x1b\x1b', 'i\x06abc\x05abc\x1b', 'i\x14\x14\x14\x04\x04\x04\x04x\x1b', 'i' + '\x14' * 140 + 'x\x1b',
          'o\x04\x04x\x1b', 'A\x17\x17\x17\x1b', 'A\x15\x1b', 'A\x08\x08\x08\x1b', ':\x01\n', '/\x01\n', ':se hist=5\n:ec a\n:ec b\n:\x01\n', ':' + 'x' * 600 + '\n', '/' + 'a' * 600 + '\n', ':s/' + 'a' * 505 + '/b/\n',
          ':ec ' + 'é' * 300 + '\n', 'i' + 'é' * 300 + '\x1b0', '500ix\x1b', '60.', '"ayy40@a', '3J99J', '99x', '99X', '99~', '99r.', '99p', '99P', '5|99|', '99%', '50%', '101%', '0%', '%',
          '\x06\x06\x06\x02\x02\x02\x04\x15\x05\x19', 'H', 'L', 'M', '99H', '99L', 'z99\n', '99z.', '99z-', '\x0c', '\x0c\x0c', 'K', 'U', 'R\x1b', 'v', 'V', '&', '#', '=', '\\', '_', '-', '+', '\x7f', '\x08', ' ']


def test_streams():
    out = []
    for p in sorted(glob.glob(os.path.join(common.REPO, 'test', '*.sh'))):
        try:
            r = subprocess.run(['sh', p, 'out'], capture_output=True, timeout=10, cwd='/tmp')
            out.append((os.path.basename(p)[0], r.stdout))
        except Exception:
            pass
    return out


def mutate(R, data, pool):
    data = bytearray(data)
    for _ in range(R.randint(1, 4)):
        if not data:
            break
        k = R.random()
        i = R.randrange(len(data))
        if k < 0.2:
            del data[i:i + R.randint(1, 8)]
        elif k < 0.4:
            j = R.randrange(len(data))
            data[i:i] = data[j:j + R.randint(1, 12)]
        elif k < 0.55:
            data = data[:i]
        elif k < 0.75:
            data[i:i] = R.choice(pool).encode()
        elif k < 0.9:
            j = R.randrange(len(data))
            a, b = min(i, j), max(i, j)
            seg = data[a:b]
            del data[a:b]
            p = R.randrange(len(data) + 1)
            data[p:p] = seg
        else:
            data[i:i + 1] = R.choice(pool).encode()
    # keep the stream valid UTF-8 and free of ^Z (job control) and NUL
    s = bytes(data).decode('utf-8', 'ignore').replace('\x1a', '').replace('\x00', '')
    return s.encode()


def bigpipe_case(R, idx):
    """more text than a pipe holds (64 KiB), sent to a command that exits without reading it all"""
    nl = R.choice([3000, 8000, 20000])
    text = b''.join(b'%06d %s\n' % (i, b'xyz' * R.randint(0, 12)) for i in range(nl))
    mode = R.choice(['v', 'se', 'se'])
    cmd = R.choice(['true', 'false', 'head -n 1', 'head -n 2', 'echo hi', 'cat', 'cat', 'tr a-z A-Z', 'sed p'])      # (streaming filters: output comes back while input is still being written)
    if mode == 'v':
        data = R.choice(['1G!G%s\n', ':%%!%s\n', ':w !%s\n', ':1,$w !%s\n', 'G:1,.!%s\n']) % cmd
    else:
        data = R.choice(['%%!%s\n', 'w !%s\n', '1,$w !%s\n', '1,$!%s\n']) % cmd
    data += R.choice(['', '1\n', 'u\n'])
    return {'idx': idx, 'mode': mode, 'rows': 24, 'cols': 80, 'files': {'f1': text}, 'args': ['f1'], 'data': data.encode()}


def capacity_case(R, idx):
    """streams aimed at the fixed-size tables of the editor: 16 buffer slots, the 128-byte autoindent, 512-byte ex lines,
    120-byte keywords, the 4 KiB input queue, 1 KiB paths: just below, at and beyond each"""
    fam = R.choice(['files', 'files', 'indent', 'indent', 'exline', 'word', 'path', 'regs', 'splits', 'subst'])
    files = {'f1': b'one two\n\tthree four\nfive\n', 'tags': b'foo\tf1\t1\n'}
    mode = 'v'
    if fam == 'files':
        n = R.choice([15, 16, 17, 18, 20, 33])
        for i in range(1, n + 1):
            files['g%d' % i] = b'file %d\n' % i
        mode = R.choice(['v', 'se'])
        pre = ':' if mode == 'v' else ''
        order = list(range(1, n + 1)) + [R.randint(1, n) for _ in range(R.randint(0, 6))]
        data = ''.join('%se%s g%d\n' % (pre, R.choice(['', '!']), i) + R.choice(['', '', pre + 's/e/E/\n', pre + 'b\n', pre + 'e #\n', pre + 'b %d\n' % R.randint(0, 17), pre + 'b +\n', pre + 'b -\n']) for i in order)
        data += pre + 'b\n' + pre + 's\n'
        args = R.choice([['f1'], [], ['g1', 'g2', 'g3']])
    elif fam == 'indent':
        ws = lambda: R.choice(['\t', ' ', '\t', ' \t']) * R.choice([30, 60, 64, 100, 126, 127, 128, 129, 200])
        data = R.choice(['o', 'O', 'A', 'i', 'cc', 'S']) + ''.join(ws() + R.choice(['x', '', 'y z']) + '\n' for _ in range(R.randint(2, 5))) + '\x1b'
        data += R.choice(['', '.', 'u', 'o\x14\x14\x04z\x1b', '>>..', ':se noai\no' + ws() + 'k\n' + ws() + '\x1b'])
        args = ['f1']
    elif fam == 'exline':
        L = R.choice([500, 509, 510, 511, 512, 513, 520, 1023, 1024, 1025, 4000, 4095, 4096, 5000])
        body = R.choice(['s/o/%s/', 'a|%s', 'ec %s', '/%s/', 's/%s/x/', 'e %s', 'r %s', 'w! %s', 'se %s', 'g/o/s/o/%s/', 'k %s', '!%s', 'ta %s', 'cm %s'])
        line = body % ('a' * max(1, L - len(body) + 2))
        mode = R.choice(['v', 'se', 'se'])
        data = (':' if mode == 'v' else '') + line + '\n' + R.choice(['', 'u\n', '1\n'])
        args = ['f1']
    elif fam == 'word':
        L = R.choice([40, 60, 85, 100, 110, 118, 119, 120, 121, 130, 300, 1100])
        ch = R.choice(['w', 'w', '漢', 'é', '😀', 'ب'])        # (multi-byte words: few characters, many bytes)
        files['f1'] = (ch * L + ' b ' + ch * L + '\nb\n').encode()
        data = R.choice(['\x01', 'w\x01', '\x1d', '*', 'gd', 'gf', '\x17gf', 'ga', '\x01n', 'K', 'q']) + R.choice(['', 'n', 'N'])
        args = ['f1']
    elif fam == 'path':
        L = R.choice([200, 250, 255, 256, 1000, 1023, 1024, 1025, 4200])
        name = 'p' * L
        mode = R.choice(['v', 'se'])
        pre = ':' if mode == 'v' else ''
        data = ''.join(pre + c + '\n' for c in R.sample(['e ' + name, 'w ' + name, 'r ' + name, 'e! ' + name, 'f', 'b', 'so ' + name, 'w! %', 'e #', 'n ' + name + ' f1', 'next'], 5))
        args = R.choice([['f1'], [name], ['f1', name]])
    elif fam == 'regs':
        big = 'r' * R.choice([4000, 4095, 4096, 4100, 9000])
        files['f1'] = (big + '\nx\n').encode()
        data = ''.join(R.choice(['"ayy', '"Ayy', '"ap', '"byw', '"Bdd', '@a', '"a2p', 'u', 'yyP', ':pu a\n', ':rs c\nabc\n.\n', ':ra a\n', '"1p.', '"cp']) for _ in range(R.randint(3, 12)))
        args = ['f1']
    elif fam == 'splits':
        data = ''.join(R.choice(['\x17s', '\x17s', '\x17j', '\x17k', '\x17o', '\x17c', '\x17x', ':e f1\n', 'dd', 'p', '\x06', '\x02', ':b\n']) for _ in range(R.randint(5, 60)))
        args = ['f1']
    else:
        n = R.choice([9, 10, 60, 64, 65, 100])
        pat = '\\(a\\)' * n if R.random() < 0.5 else '(a)' * n
        rep = ''.join('\\%d' % R.randint(0, 9) for _ in range(R.randint(1, 40))) + '&' * R.randint(0, 5)
        files['f1'] = ('a' * 200 + '\n').encode()
        mode = 'se'
        data = 's/%s/%s/g\n' % (pat, rep) + R.choice(['', 'u\n', '&&\n', 's\n', '~\n'])
        args = ['f1']
    rows, cols = R.choice(WINDOWS)
    return {'idx': idx, 'mode': mode, 'rows': rows, 'cols': cols, 'files': files, 'args': args, 'data': data.encode()}


EDGE_CP = ['\U000f0000', '\U0010ffff', '\U000e01ef', '\U000e01f0', '\U000e0100', '\uffff', '\ufffd', '\U0001f1e6', '\U000e007f', '\x7f', '\u0085', '\u009f', '\u00ad', '\u0300', '\u036f', '\u0370',
           '\u1100', '\u115f', '\u1160', '\u2e80', '\ua4cf', '\uac00', '\ud7a3', '\ud7a4', '\uff00', '\uff60', '\uffe6', '\U00020000', '\U0003fffd', '\U0003fffe', '\u200b', '\u200f', '\u2028', '\u202e', '\ufeff']


def make_case(idx, tests):
    R = rng('c05', idx)
    x = R.random()
    if x < 0.01:
        return bigpipe_case(R, idx)
    if x < 0.06:
        return capacity_case(R, idx)
    kind = R.choice(['mixed', 'mixed', 'ascii', 'ltr'])
    lines = gen.rand_buffer(R, kind, 10)
    if R.random() < 0.15:
        lines.append(gen.long_line(R, kind, R.choice([100, 300, 1000])))
    if R.random() < 0.05:
        lines = [gen.rand_line(R, kind) for _ in range(R.randint(30, 120))]
    if kind == 'mixed' and R.random() < 0.12 and lines:
        # code points at the ends of the width / zero-width / non-printable tables and of the code space
        for _ in range(R.randint(1, 4)):
            k = R.randrange(len(lines))
            p = R.randint(0, len(lines[k]))
            lines[k] = lines[k][:p] + R.choice(EDGE_CP) + lines[k][p:]
    files = {'f1': gen.buf_bytes(lines, R.random() < 0.9), 'f2': gen.buf_bytes(gen.rand_buffer(R, kind, 5)), 'f3': b'three\n',
             'src': b'1\ns/a/b/\nec sourced\n', 'tags': b'foo\tf2\t/o/\nmain\tf1\t1\nmain\tf3\t/three/\n'}
    rows, cols = R.choice(WINDOWS)
    mode = R.choice(['v', 'v', 'v', 'se', 'se', 'e'])
    ftname = None
    if R.random() < 0.3:
        # other file types: each has its own set of highlight patterns (syn.c / conf.h), definition and section patterns
        ftname = R.choice(['t.c', 't.h', 't.sh', 't.go', 't.py', 't.tex', 't.ms', 't.1', 'Makefile', 't.mk', 't.diff', 't.patch', 'letter', 'mbox', 't.bib', 't.nm', 'ls', 't.roff'])
        code = ['#include <stdio.h>', 'int main(void)', '{', '\treturn foo("str\\"", \'c\') /* c */ + 0x1f; // x', '}', 'static void foo(int a) {', 'def foo(x):', 'class Bar:', 'func (r *T) foo() {', 'foo() {', 'function bar {',
                '.de foo', '.nr x 1', '\\fBbold\\fP \\*(xx \\n(yy', '\\section{a} % c', '$x^2$ \\begin{foo}', 'foo: bar baz', '\t$(CC) -o $@ $<', '+added', '-removed', '@@ -1,2 +1,3 @@', 'diff --git a/x b/x', 'From: a@b', 'Subject: hi', '> quoted',
                '@article{key,', 'author = {A},', '# comment', '"unterminated', "'x", '/* open comment', 'f2:2:3', 'f3:1', 't.c:4: error', 'if (x) else while for return', 'import os', 'package main', 'var x = `raw`']
        for _ in range(R.randint(1, 8)):
            lines.insert(R.randint(0, len(lines)), R.choice(code))
        files[ftname] = gen.buf_bytes(lines, R.random() < 0.9)
    pool = gen.PUNCT + gen.ASCII_WORDS + gen.MB_WORDS + EDGE_CP[:4] + ['\x1b', '\n', ':', '\x17', '"', '1', '9', 'd', 'c', 'y', 'p', 'u', '.', '@', 'q', 'g', 'z', 'G', '\x12', '\x16', '\x0b']
    src = R.random()
    if mode == 'v':
        if src < 0.45:
            prog = ''.join(k for k, _ in gen.vi_program(R, R.randint(3, 40), kind))
            data = prog.encode()
        elif src < 0.6:
            data = ''.join(R.choice(VI_ODD) for _ in range(R.randint(1, 8))).encode()
        elif src < 0.8:
            prog = ''.join(k for k, _ in gen.vi_program(R, R.randint(3, 25), kind)) + ''.join(R.choice(VI_ODD) for _ in range(R.randint(1, 4)))
            data = mutate(R, prog.encode(), pool)
        else:
            cand = [t for m, t in tests if m == 'v']
            data = mutate(R, R.choice(cand), pool) if cand else b'dd'
    else:
        if src < 0.4:
            n = max(1, len(lines))
            data = b''.join(gen.ex_modify(R, n, kind) if R.random() < 0.5 else (R.choice(EX_MISC) + '\n').encode() for _ in range(R.randint(2, 30)))
        elif src < 0.6:
            data = ''.join(gen.ex_addr(R, max(1, len(lines)), True) + R.choice(EX_MISC) + '\n' for _ in range(R.randint(1, 12))).encode()
        elif src < 0.8:
            n = max(1, len(lines))
            data = b''.join(gen.ex_modify(R, n, kind) if R.random() < 0.5 else (R.choice(EX_MISC) + '\n').encode() for _ in range(R.randint(2, 20)))
            data = mutate(R, data, pool)
        else:
            cand = [t for m, t in tests if m == 'e']
            data = mutate(R, R.choice(cand), pool) if cand else b'd'
    args = R.choice([['f1'], ['f1'], ['f1', 'f2'], ['f1', 'f2', 'f3'], [], ['nosuch']])
    if ftname:
        args = R.choice([[ftname], [ftname, 'f2'], ['f1', ftname]])
    return {'idx': idx, 'mode': mode, 'rows': rows, 'cols': cols, 'files': files, 'args': args, 'data': data}


def execute(vi, case, timeout=25, msan=False, idle=None):
    """idle=None: plain wall-clock timeout; otherwise progress-based (returns (Result, state, commands))"""
    d = common.case_dir('f')
    os.chmod(d, 0o777)
    common.write_files(d, case['files'])
    for f in os.listdir(d):
        os.chmod(os.path.join(d, f), 0o666)
    env = common.base_env(d, case['rows'], case['cols'])
    env['TAGPATH'] = 'tags'
    if msan:
        env['MSAN_OPTIONS'] = 'exitcode=97:halt_on_error=1'
    if case['mode'] == 'v':
        argv, data = [vi, '-v'], case['data'] + common.VI_QUIT
    elif case['mode'] == 'se':
        argv, data = [vi, '-s', '-e'], case['data'] + b'\n' + common.EX_QUIT
    else:
        argv, data = [vi, '-e'], case['data'] + b'\n\x1b\n' + b'\x05.\n\x05q!\n' * 150   # ^E: a :cm may have switched the prompt keymap
    if idle is None:
        r = common.run(argv + case['args'], data, d, env, timeout, preexec=drop_priv)
    else:
        tail = common.VI_QUIT * 20 if case['mode'] == 'v' else (common.EX_QUIT * 40 if case['mode'] == 'se' else b'\x05.\n\x05q!\n' * 6000)
        r = common.run_progress(argv + case['args'], data, d, env, idle=idle, total=timeout, preexec=drop_priv, more=tail, more_times=3)
    common.rmcase(d)
    return r


def run_case(args):
    vi, idx, tests = args[:3]
    msan = len(args) > 3 and args[3]
    case = make_case(idx, tests)
    r = execute(vi, case, msan=msan)
    if r.timed_out:
        # slow is not stuck (big counts on growing lines cost quadratic time; a register that runs itself never ends): the verdict
        # is based on progress.  The editor reports every executed command (hook); "stuck" = no command finished for 60 s under
        # the sanitizer AND, in a second run, for 120 s in the uninstrumented build.  Still executing commands at the end of
        # the budget = "slow" (counted, no verdict).
        r2, state, ncmd = execute(vi, case, timeout=150, msan=msan, idle=60)
        if state == 'stuck':
            r3, state3, ncmd3 = execute(common.build('plain'), case, timeout=300, idle=120)
            if state3 in ('stuck', 'unresponsive'):      # ('starved' = the stream ended inside a text block: every :g/re/a execution reads one)
                r3.err = (r3.err or b'') + b'[%d commands executed before the last one never returned]' % ncmd3
                return ('hang', case, r3)
            return ('slow', case, r3)
        if state == 'unresponsive':
            r3, state3, ncmd3 = execute(common.build('plain'), case, timeout=300, idle=120)
            if state3 == 'unresponsive':
                r3.err = (r3.err or b'') + b'[still waiting for input after the stream and 3 x 6000 further quit commands: the editor no longer reacts to commands]'
                return ('hang', case, r3)
            return ('slow', case, r3)
        if state in ('running', 'starved'):
            return ('slow', case, r2)
        r = r2
    rep = common.san_report(r)
    if rep is None and (r.rc == 97 or b'MemorySanitizer' in r.err):
        rep = 'msan:use-of-uninitialized-value'
    if rep:
        return (rep, case, r)
    return (None, {'mode': case['mode'], 'len': len(case['data']), 'win': (case['rows'], case['cols']), 'sample': case['data'][:60] if idx % 500 == 0 else None}, None)


def stream_class(case):
    """a short description of what in the stream matters, for the key of hangs"""
    return case['mode']


def run(tier, V):
    vi = build('asan')
    build('plain')      # the hang arbiter (cached for the workers)
    os.chmod(common.tmp_root(), 0o755)
    tests = test_streams()
    n = 12000 if tier == 'quick' else 80000
    base = common.seed() * 1000003
    res = pmap(run_case, [(vi, base + i, tests) for i in range(n)])
    # a slice of the same generator under MemorySanitizer (uninitialised reads; libc only, so no uninstrumented dependencies)
    nm = 1500 if tier == 'quick' else 15000
    try:
        vim = build('msan')
        res += pmap(run_case, [(vim, base + 500000 + i, tests, True) for i in range(nm)])
    except common.HarnessError as e:
        nm = 0
        V.inconclusive += 1
    modes = {}
    wins = set()
    nbytes = 0
    slow = 0
    samples = []
    for key, info, r in res:
        if key is None:
            modes[info['mode']] = modes.get(info['mode'], 0) + 1
            wins.add(tuple(info['win']))
            nbytes += info['len']
            if info['sample'] is not None:
                samples.append({'mode': info['mode'], 'stream': common.show(info['sample'], 60)})
            continue
        case = info
        modes[case['mode']] = modes.get(case['mode'], 0) + 1
        if key == 'slow':
            slow += 1
            continue
        wit = {'mode': case['mode'], 'rows': case['rows'], 'cols': case['cols'], 'args': case['args'], 'files': case['files'], 'stream': case['data'], 'seed_index': case['idx'], 'build': 'msan' if (key or '').startswith('msan') else 'asan'}
        if key == 'hang':
            V.violation('hang:' + stream_class(case), 'editor did not reach the quit at the end of the stream one command never returned (no command finished for 60 s in the sanitizer build and for 120 s in the plain build): mode %s stream %s' % (case['mode'], common.show(case['data'], 200)), wit)
        else:
            V.violation(key, 'mode %s window %dx%d stream %s :: %s' % (case['mode'], case['rows'], case['cols'], common.show(case['data'], 160), summarize(r.err)), wit)
    cov = {'slow_streams_still_making_progress_at_the_budget': slow, 'msan_streams': nm, 'evaluations': n + nm, 'distinct_nontrivial': n + nm, 'streams_by_mode': modes, 'window_sizes_seen': sorted(wins), 'stream_bytes': nbytes,
           'test_scripts_used_as_seeds': len(tests), 'odd_seeds': len(VI_ODD) + len(EX_MISC),
           'rule': ('%d streams: vi grammar programs, ex grammar programs, hand-written odd-but-legal seeds, 1%% filters/pipe writes of 100-500 KB buffers through commands that exit early, 5%% capacity streams (17+ buffers, 128-byte indents, 512-byte ex lines, 120-byte words, 1 KiB paths, 4 KiB registers, many splits, 64+ groups), mutations (truncate/splice/duplicate/swap/insert valid UTF-8) of those and of the %d test scripts; '
                    'x 30%% file names of the other file types (c, sh, go, py, roff, tex, mk, diff, mail, bib, nm, ls: their highlight, definition and section patterns) with code-like lines x random buffers (ASCII, multi-byte, wide, combining, RTL, long lines, empty, no final newline) x window sizes 2x2..60x200 x -v / -s -e / -e, run as uid nobody under ASan+UBSan (and a further slice under MemorySanitizer) with a whitelist shell. '
                    'every stream is distinct (seeded index) and non-trivial (at least one command).' % (n, len(tests))),
           'samples': samples[:6] or [{'note': 'no sample'}]}
    assumptions = ['ASan+UBSan observe out-of-bounds/use-after-free/UB in code the streams reach; a clean run is not a proof of memory safety',
                   'typed text and patterns are valid UTF-8 (streams are filtered); ^Z and NUL bytes are removed from streams',
                   'SIGWINCH storms, sockets (:rk) and real shells are not driven; external commands go through lib/safesh']
    return cov, assumptions


def summarize(err):
    e = err.decode('latin-1', 'replace')
    lines = [l for l in e.split('\n') if 'ERROR:' in l or 'runtime error' in l or l.strip().startswith('#0') or l.strip().startswith('#1 ') or l.strip().startswith('#2 ')]
    return ' | '.join(l.strip() for l in lines[:5])[:500]


def REPLAY(w):
    import os
    msan = w.get('build') == 'msan'
    vi = build('msan' if msan else 'asan')
    build('plain')
    os.chmod(common.tmp_root(), 0o755)
    r = run_case((vi, w['seed_index'], test_streams(), msan))
    return r[0], (summarize(r[2].err) if r[2] is not None else None)
