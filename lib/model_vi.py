"""Reference model of neatvi's vi mode for left-to-right text: motions (C07) and operators,
inserts, puts, registers (C08).  Key-level interpreter over a Python str of keystrokes.

Written from the property statements, POSIX vi and the dialect choices listed in DESIGN.md
Appendix A.  Lines are str without terminator; offsets are code-point indices; an offset equal
to len(line) denotes the terminator.
"""


class Unknown(Exception):
    pass


def kind(c):
    if c in ' \t\n\r\v\f':
        return 0
    if ord(c) > 0x7f or c.isalnum() or c == '_':
        return 1
    return 2


def isspace(c):
    return c in ' \t\n\r\v\f'


class Vi:
    def __init__(self, lines, widths, rows=23, shell=None, ai=True):
        self.L = list(lines)
        self.W = widths
        self.row = 0
        self.off = 0
        self.xcol = 0
        self.top = 0
        self.rows = rows
        self.regs = {}          # name -> (text, linewise)
        self.charlast = None    # (char, cmd)
        self.marks = {}
        self.ai = ai
        self.shell = shell or {}
        self.keys = ''
        self.pos = 0
        self.rep = None         # keys of the last repeatable command
        self.wfix()

    # ------------------------------------------------------------------ text helpers
    def n(self):
        return len(self.L)

    def ln(self, r):
        """line r with its terminator, or None"""
        return self.L[r] + '\n' if 0 <= r < len(self.L) else None

    def noeol(self, r, o):
        s = self.ln(r)
        n = len(s) if s is not None else 0
        if o >= n:
            o = max(0, n - 1)
        if o > 0 and s[o] == '\n':
            return o - 1
        return o

    def eol(self, r):
        s = self.ln(r)
        return len(s) - 1 if s else 0

    def indents(self, r):
        s = self.ln(r)
        if s is None:
            return 0
        o = 0
        while s[o] != '\n' and isspace(s[o]):
            o += 1
        return o

    def cols(self, r):
        """start column of every character of line r (incl. terminator) and total width"""
        s = self.ln(r) or ''
        out = []
        c = 0
        for ch in s:
            out.append(c)
            c += 1 if ch == '\n' else self.W.cwid(ord(ch), c)
        return out, c

    def off2col(self, r, o):
        pos, tot = self.cols(r)
        return pos[o] if o < len(pos) else 0

    def col2off(self, r, col):
        pos, tot = self.cols(r)
        if not pos:
            return 0
        best = 0
        found = False
        for i, p in enumerate(pos):
            if p <= col:
                best = i
                found = True
        return best if found else 0

    # ------------------------------------------------------------------ character stream helpers
    def chr(self, r, o):
        s = self.ln(r)
        if s is None or o >= len(s):
            return ''
        return s[o]

    def nxt(self, r, o, d):
        s = self.ln(r)
        if d < 0 and r >= self.n():
            r = max(0, self.n() - 1)
            s = self.ln(r)
        o2 = o + d
        if s is not None and 0 <= o2 < len(s):
            return r, o2
        if self.ln(r + d) is None:
            return None
        r += d
        return r, (0 if d > 0 else self.eol(r))

    def wordlast(self, k, d, r, o):
        c = self.chr(r, o)
        if not k or not c or not (kind(c) & k):
            return True, r, o
        while self.chr(r, o) and (kind(self.chr(r, o)) & k):
            p = self.nxt(r, o, d)
            if p is None:
                return False, r, o
            r, o = p
        if not (self.chr(r, o) and kind(self.chr(r, o)) & k):
            p = self.nxt(r, o, -d)
            if p:
                r, o = p
        return True, r, o

    def wordbeg(self, big, d, r, o):
        c = self.chr(r, o)
        ok, r, o = self.wordlast(3 if big else (kind(c) if c else 0), d, r, o)
        nl = 1 if self.chr(r, o) == '\n' else 0
        p = self.nxt(r, o, d)
        if p is None:
            return False, r, o
        r, o = p
        while self.chr(r, o) and isspace(self.chr(r, o)):
            nl += self.chr(r, o) == '\n'
            if nl == 2:
                return True, r, o
            p = self.nxt(r, o, d)
            if p is None:
                return False, r, o
            r, o = p
        return True, r, o

    def wordend(self, big, d, r, o):
        nl = 0
        c = self.chr(r, o)
        if c and not isspace(c):
            p = self.nxt(r, o, d)
            if p is None:
                return False, r, o
            r, o = p
            nl = 1 if (d < 0 and self.chr(r, o) == '\n') else 0
        nl += 1 if (d > 0 and self.chr(r, o) == '\n') else 0
        while self.chr(r, o) and isspace(self.chr(r, o)):
            p = self.nxt(r, o, d)
            if p is None:
                return False, r, o
            r, o = p
            nl += self.chr(r, o) == '\n'
            if nl == 2:
                if d < 0:
                    p = self.nxt(r, o, -d)
                    if p:
                        r, o = p
                return True, r, o
        c = self.chr(r, o)
        ok, r, o = self.wordlast(3 if big else (kind(c) if c else 0), d, r, o)
        return ok, r, o

    def findchar(self, ch, cmd, n, r, o):
        s = self.ln(r)
        if s is None:
            return None
        d = 1 if cmd in 'ft' else -1
        if n < 0:
            d, n = -d, -n
        i = o
        if i > len(s):
            return None
        while n > 0:
            j = i + d
            if d < 0:
                if i == 0:
                    break
            else:
                if j >= len(s):
                    break
            i = j
            if s[i] == ch:
                n -= 1
        if n:
            return None
        if cmd in 'tT':
            j = i - d
            if d > 0:
                if i > 0:
                    i = j
            else:
                if j < len(s):
                    i = j
        return i

    def pair(self, r, o):
        pairs = '()[]{}'
        s = self.ln(r)
        if s is None:
            return None
        while o < len(s) and s[o] not in pairs:
            o += 1
        if o >= len(s):
            return None
        pc = s[o]
        idx = pairs.index(pc)
        d = -1 if idx & 1 else 1
        dep = 1
        p = (r, o)
        while True:
            p = self.nxt(p[0], p[1], d)
            if p is None:
                return None
            c = self.chr(*p)
            if c == pairs[idx ^ 1]:
                dep -= 1
            if c == pc:
                dep += 1
            if dep == 0:
                return p

    def paragraph(self, d, r):
        n = self.n()
        while 0 <= r < n and self.L[r] == '':
            r += d
        while 0 <= r < n and self.L[r] != '':
            r += d
        return max(0, min(r, n - 1))

    # ------------------------------------------------------------------ key reader
    def read(self):
        if self.pos >= len(self.keys):
            raise Unknown('keys exhausted inside a command')
        c = self.keys[self.pos]
        self.pos += 1
        return c

    def peek(self):
        return self.keys[self.pos] if self.pos < len(self.keys) else ''

    def prefix(self):
        n = 0
        if self.peek() and self.peek() in '123456789':
            while self.peek().isdigit() and self.peek() != '':
                d = self.read()
                if n < 1000000:
                    n = n * 10 + int(d)
        return n

    def yankbuf(self):
        if self.peek() == '"':
            self.read()
            c = self.read()
            if c == '\\':
                return '\\' + self.read()
            return c
        return None

    def readchar(self):
        """a character argument (f, t, r): ^V literal; digraphs and keymaps are not modelled"""
        c = self.read()
        if c in '\x1b\x03':
            return None
        if c == '\x16':
            return self.read()
        if c in '\x0b\x05\x06':
            raise Unknown('digraph / keymap key')
        return c

    # ------------------------------------------------------------------ motions
    def motionln(self, r, cmd, cnt, given):
        """line motions; returns (mv, row) or None if the next key is not a line motion"""
        c = self.peek()
        n = self.n()
        if c in ('\n', '+'):
            self.read()
            return c, min(r + cnt, n - 1)
        if c == '-':
            self.read()
            return c, max(r - cnt, 0)
        if c == '_':
            self.read()
            return c, min(r + cnt - 1, n - 1)
        if c == "'":
            self.read()
            m = self.read()
            raise Unknown('mark motion')
        if c == 'j':
            self.read()
            return c, min(r + cnt, n - 1)
        if c == 'k':
            self.read()
            return c, max(r - cnt, 0)
        if c == 'G':
            self.read()
            return c, (cnt - 1) if given else n - 1
        if c == 'H':
            self.read()
            return c, min(self.top + cnt - 1, n - 1)
        if c == 'L':
            self.read()
            return c, min(self.top + self.rows - 1 - cnt + 1, n - 1)
        if c == 'M':
            self.read()
            return c, min(self.top + self.rows // 2, n - 1)
        if cmd and c == cmd:
            self.read()
            return c, min(r + cnt - 1, n - 1)
        if c == '%' and given:
            self.read()
            if cnt > 100:
                return -1, r
            return c, max(0, n - 1) * cnt // 100
        return None

    def motion(self, r, o, a1, a2, cmd=None):
        """returns (mv, row, off); mv None: not a motion (nothing consumed); mv == -1: failed motion;
        off == -1 for line motions"""
        cnt = (a1 or 1) * (a2 or 1)
        given = bool(a1 or a2)
        m = self.motionln(r, cmd, cnt, given)
        if m is not None:
            mv, row = m
            if mv == -1:
                return -1, r, o
            return mv, max(row, 0), -1
        c = self.peek()
        if c == '':
            return None, r, o
        if c in 'fFtT':
            self.read()
            ch = self.readchar()
            if ch is None:
                return -1, r, o
            self.charlast = (ch, c)
            i = self.findchar(ch, c, cnt, r, o)
            if i is None:
                return -1, r, o
            return c, r, i
        if c in ';,':
            self.read()
            if not self.charlast:
                return -1, r, o
            ch, cm = self.charlast
            i = self.findchar(ch, cm, cnt if c == ';' else -cnt, r, o)
            if i is None:
                return -1, r, o
            return c, r, i
        if c in 'hl':
            self.read()
            s = self.ln(r)
            for _ in range(cnt):
                if s is None:
                    break
                o2 = o + (1 if c == 'l' else -1)
                if o2 < 0 or o2 >= len(s) or s[o2] == '\n':
                    break
                o = o2
            return c, r, o
        if c in 'wWbBeE':
            self.read()
            for _ in range(cnt):
                if c in 'wW':
                    ok, r, o = self.wordbeg(c == 'W', 1, r, o)
                elif c in 'bB':
                    ok, r, o = self.wordend(c == 'B', -1, r, o)
                else:
                    ok, r, o = self.wordend(c == 'E', 1, r, o)
                if not ok:
                    break
            return c, r, o
        if c in '{}':
            self.read()
            for _ in range(cnt):
                r = self.paragraph(-1 if c == '{' else 1, r)
            return c, r, 0
        if c == '0':
            self.read()
            return c, r, 0
        if c == '^':
            self.read()
            return c, r, self.indents(r)
        if c == '$':
            self.read()
            return c, r, self.eol(r)
        if c == '|':
            self.read()
            self.pcol = cnt - 1
            return c, r, self.col2off(r, cnt - 1)
        if c == ' ':
            self.read()
            s = self.ln(r)
            for _ in range(cnt):
                if s is None or o + 1 >= len(s):
                    break
                o += 1
            return c, r, o
        if c in '\x08\x7f':
            self.read()
            for _ in range(cnt):
                if o - 1 < 0 or self.ln(r) is None:
                    break
                o -= 1
            return c, r, o
        if c == '%':
            self.read()
            p = self.pair(r, o)
            if p is None:
                return -1, r, o
            return c, p[0], p[1]
        if c in '/?nN':
            return self.search_motion(c, cnt, r, o)
        if c in '\x01`[]':
            raise Unknown('motion %r is not modelled here' % c)
        return None, r, o

    def search_motion(self, c, cnt, r, o):
        """/pat, ?pat (literal patterns), optional line offset after the closing delimiter, n, N (C13 semantics: whole-line matching,
        first match after / last match before the cursor, no wrap-around)"""
        import c13
        if c in '/?':
            self.read()
            txt = ''
            while True:
                k = self.read()
                if k == '':
                    raise Unknown('unterminated search')
                if k == '\n':
                    break
                if ord(k) < 32 or k == '\x7f':
                    raise Unknown('editing keys in a search prompt')
                txt += k
            pat, _, off = txt.partition(c)
            if pat not in ('$', '^') and any(ch in pat for ch in '\\.[]*+?(){}|^$/<>&~'):
                raise Unknown('search pattern with operators')
            d = 1 if c == '/' else -1
            if pat:
                self.kwd = (pat, d)
            elif getattr(self, 'kwd', None):
                self.kwd = (self.kwd[0], d)
            off = off.strip()
            self.soset = bool(off)
            try:
                self.so = int(off) if off else 0
            except ValueError:
                raise Unknown('odd search offset')
            dirn = d
        else:
            self.read()
            if not getattr(self, 'kwd', None):
                raise Unknown('search without a previous pattern (the initial keyword is the empty pattern)')
            dirn = self.kwd[1] if c == 'n' else -self.kwd[1]
        if not getattr(self, 'kwd', None):
            raise Unknown('search without a previous pattern (the initial keyword is the empty pattern)')
        if not self.n():
            return -1, r, o
        lines = [self.lz(i).rstrip('\n') for i in range(self.n())]
        M = c13.Model(lines, True)
        cr, co = r, o
        for _ in range(cnt):
            res = M.search({'$': ('eol',), '^': ('bol',)}.get(self.kwd[0], ('lit', self.kwd[0])), cr, co, dirn)
            if res is None:
                return -1, r, o
            cr, co, _ = res
        if getattr(self, 'soset', False):
            if not (0 <= cr + self.so < self.n()):
                return -1, r, o
            return c, cr + self.so, -1
        return c, cr, co

    def wfix(self):
        n = self.n()
        if self.row < 0 or self.row >= n:
            self.row = n - 1 if n else 0
        h = self.rows
        if self.top > self.row:
            self.top = max(0, self.row - h // 2) if self.top - h // 2 > self.row else self.row
        if self.top + h <= self.row:
            self.top = self.row - h // 2 if self.top + h + h // 2 <= self.row else self.row - h + 1
        self.off = self.noeol(self.row, self.off)

    # ------------------------------------------------------------------ registers
    def reg_put(self, name, text, linewise):
        if (linewise or '\n' in text) and (name is None or (len(name) == 1 and name.isalpha() and name.isascii())):
            for i in range(8, 0, -1):
                if str(i) in self.regs:
                    self.regs[str(i + 1)] = self.regs[str(i)]
            self.regs['1'] = (text, linewise)
        key = name if name is not None else '"'
        if len(key) == 1 and key.isupper() and key.isascii():
            old = self.regs.get(key.lower(), ('', linewise))[0]
            self.regs[key.lower()] = (old + text, linewise)
        else:
            self.regs[key] = (text, linewise)

    def reg_get(self, name):
        key = name if name is not None else '"'
        if key in ('.', ':', '/', '%', ';', '#', '^', '!'):
            raise Unknown('special register')
        if len(key) == 1 and key.isupper():
            key = key     # reading "A reads register A itself (never written): empty
        return self.regs.get(key)

    # ------------------------------------------------------------------ regions
    def lz(self, r):
        return self.ln(r) or ''

    def region_text(self, r1, o1, r2, o2):
        if r1 == r2:
            s = self.lz(r1)
            e = len(s) if o2 < 0 else o2
            return s[o1:e] if o1 <= e else ''
        s1 = self.lz(r1)[o1:]
        s3 = self.lz(r2)
        s3 = s3 if o2 < 0 else s3[:o2]
        mid = ''.join(self.lz(i) for i in range(r1 + 1, r2))
        return s1 + mid + s3

    def edit(self, text, beg, end):
        """replace lines [beg,end) by the lines of text (str with terminators, or None)"""
        n = self.n()
        beg, end = min(beg, n), min(end, n)
        new = []
        if text:
            parts = text.split('\n')
            if parts[-1] == '':
                parts.pop()
            new = parts
        self.L[beg:end] = new

    # ------------------------------------------------------------------ insert mode
    def led_input(self, pref, post):
        """reads keys up to ESC; returns the resulting text (pref + typed + post) as neatvi builds it, or None"""
        ai = ''
        while pref and pref[0] in ' \t' and len(ai) < 127:
            ai += pref[0]
            pref = pref[1:]
        sb = ''
        first_pref = pref
        while True:
            typed = ''
            key = None
            while True:
                c = self.read()
                if c == '\x1b' or c == '\x03':
                    key = c
                    break
                if c == '\n':
                    key = c
                    break
                if c in '\x08\x7f':
                    typed = typed[:-1]
                elif c == '\x15':
                    typed = ''
                elif c == '\x17':
                    i = len(typed)
                    while i > 0 and isspace(typed[i - 1]):
                        i -= 1
                    if i > 0:
                        # led_lastword: position of the last word's first character
                        j = i - 1
                        k = kind(typed[j]) if j > 0 else 0
                        while j > 0 and kind(typed[j - 1]) == k:
                            j -= 1
                        typed = typed[:j]
                    else:
                        typed = typed[:0] if False else typed[:i] if False else ''
                elif c == '\x14':
                    if len(ai) < 127:
                        ai += '\t'
                elif c == '\x04':
                    if not ai and not pref:
                        if typed[:1] in (' ', '\t') and typed:
                            typed = typed[1:]
                    if ai:
                        ai = ai[:-1]
                elif c == '\x16':
                    typed += self.read()
                elif c in '\x10\x12\x01\x0b\x05\x06':
                    raise Unknown('insert-mode key %r' % c)
                else:
                    typed += c
            sp = 0
            while sp < len(typed) and typed[sp] in ' \t':
                sp += 1
            if sp < len(typed) or pref or (key != '\n' and post and post[0] != '\n'):
                sb += ai
            sb += (pref or '') + typed
            if key == '\n':
                sb += '\n'
            if not pref:
                add = typed[:sp]
                room = 127 - len(ai)
                ai += add[:max(0, room)]
            if not self.ai:
                ai = ''
            if key != '\n':
                break
            pref = ''
            if self.ai:
                k = 0
                while k < len(post) and post[k] in ' \t':
                    k += 1
                post = post[k:]
        sb += post
        if key in '\x1b\x03':
            return sb, post
        return None, post

    def insert_result(self, rep, post):
        """(number of lines in rep, cursor offset on its last line)"""
        row = rep.count('\n') + (0 if rep.endswith('\n') else 1)
        row = len(rep.split('\n')) - 1          # linecount(rep) - 1
        body = rep[:len(rep) - len(post)] if len(rep) >= len(post) else ''
        last = body.rsplit('\n', 1)[-1] if '\n' in body else body
        if len(rep) < len(post):
            off = 0
        else:
            nl = 0
            for i in range(len(rep) - len(post)):
                if rep[i] == '\n':
                    nl = i + 1
            off = len(rep[nl:]) - len(post) - 1
        return row, max(0, off)

    # ------------------------------------------------------------------ operators
    def vc_motion(self, cmd, a1, ybuf):
        if not self.n():
            raise Unknown('operator on an empty buffer')
        r1 = r2 = self.row
        a2 = self.prefix()
        o1 = self.noeol(r1, self.off)
        o2 = o1
        mv, r2, o2 = self.motion(r2, o2, a1, a2, cmd if len(cmd) == 1 else None)
        if mv is None:
            if self.peek() != '':
                self.read()
            return False
        if mv == -1:
            return False
        ln = o2 < 0
        if ln:
            o1 = 0
            o2 = self.eol(r2)
        if r1 > r2:
            r1, r2 = r2, r1
            o1, o2 = o2, o1
        if r1 == r2 and o1 > o2:
            o1, o2 = o2, o1
        o1 = self.noeol(r1, o1)
        if not ln and mv in 'fFtTeE%':
            if o2 < self.eol(r2):
                o2 = self.noeol(r2, o2) + 1
        if cmd == 'y':
            self.reg_put(ybuf, self.region_text(r1, 0 if ln else o1, r2, -1 if ln else o2), ln)
            self.row = r1
            if not ln:
                self.off = o1
            return 'col'
        if cmd == 'd':
            self.reg_put(ybuf, self.region_text(r1, 0 if ln else o1, r2, -1 if ln else o2), ln)
            if ln:
                self.edit(None, r1, r2 + 1)
            else:
                line = self.lz(r1)[:o1] + self.lz(r2)[o2:]
                self.edit(line, r1, r2 + 1)
            self.row = r1
            self.off = self.indents(r1) if ln else o1
            return True
        if cmd == 'c':
            self.reg_put(ybuf, self.region_text(r1, 0 if ln else o1, r2, -1 if ln else o2), ln)
            s1 = self.ln(r1)
            if ln:
                pref = ''
                if self.ai and s1:
                    k = 0
                    while s1[k] in ' \t':
                        k += 1
                    pref = s1[:k]
                post = '\n'
            else:
                pref = s1[:o1] if s1 else ''
                s2 = self.ln(r2)
                post = s2[o2:] if s2 else '\n'
            self.row = r1
            rep, post2 = self.led_input(pref, post)
            if rep is None:
                return False
            row, off = self.insert_result(rep, post2)
            self.edit(rep, r1, r2 + 1)
            self.row = r1 + row - 1
            self.off = off
            return True
        if cmd in ('~', 'u', 'U'):
            txt = self.region_text(r1, 0 if ln else o1, r2, -1 if ln else o2)
            out = []
            for ch in txt:
                if ord(ch) <= 0x7f:
                    if cmd == 'u':
                        ch = ch.lower()
                    elif cmd == 'U':
                        ch = ch.upper()
                    else:
                        ch = ch.upper() if ch.islower() else ch.lower()
                out.append(ch)
            txt = ''.join(out)
            if ln:
                self.edit(txt, r1, r2 + 1)
            else:
                self.edit(self.lz(r1)[:o1] + txt + self.lz(r2)[o2:], r1, r2 + 1)
            self.row = r2
            self.off = self.indents(r2) if ln else o2
            return True
        if cmd in '<>':
            for i in range(r1, r2 + 1):
                s = self.ln(i)
                if s is None:
                    continue
                if cmd == '>':
                    if s[0] != '\n':
                        s = '\t' + s
                else:
                    if s[0] in ' \t':
                        s = s[1:]
                self.edit(s, i, i + 1)
            self.row = r1
            self.off = self.indents(r1)
            return True
        if cmd == '!':
            if mv in '{}':
                if self.lz(r2) == '\n' and r1 < r2:
                    r2 -= 1
            c = ''
            while True:
                k = self.read()
                if k == '\n':
                    break
                if k in '\x1b\x03':
                    return False
                if ord(k) < 32:
                    raise Unknown('control key in a prompt')
                c += k
            if c not in self.shell:
                raise Unknown('shell command %r' % c)
            new = self.shell[c]([self.L[i] for i in range(r1, min(r2 + 1, self.n()))])
            self.edit(''.join(x + '\n' for x in new), r1, r2 + 1)
            return True
        raise Unknown(cmd)

    # ------------------------------------------------------------------ one command
    def step(self):
        start = self.pos
        ybuf = self.yankbuf()
        a1 = self.prefix()
        if ybuf is None:
            ybuf = self.yankbuf()
        nrow, noff = self.row, self.noeol(self.row, self.off)
        mv, nrow, noff = self.motion(nrow, noff, a1, 0)
        mod = False
        if mv == -1:
            pass
        elif mv is not None:
            self.row = nrow
            if mv in 'jk':
                noff = self.col2off(self.row, self.xcol) if 0 <= self.row < self.n() else 0
            elif noff < 0:
                noff = self.indents(self.row)
            self.off = self.noeol(self.row, noff) if 0 <= self.row < self.n() else 0
            if mv not in '|jk':
                self.xcol = self.off2col(self.row, self.off) if 0 <= self.row < self.n() else 0
            if mv == '|':
                self.xcol = self.pcol
        else:
            c = self.read()
            if c in 'cdy!<>':
                mod = self.vc_motion(c, a1, ybuf)
            elif c == 'g':
                k = self.read()
                if k in '~uU':
                    mod = self.vc_motion(k, a1, ybuf)
                    c = 'g' + k
                else:
                    raise Unknown('g' + k)
            elif c in 'xXDCsSY~':
                back = {'x': ' ', 'X': '\x08', 'D': '$', 'C': '$', 's': ' ', 'S': 'c', 'Y': 'y', '~': ' '}[c]
                op = {'x': 'd', 'X': 'd', 'D': 'd', 'C': 'c', 's': 'c', 'S': 'c', 'Y': 'y', '~': '~'}[c]
                self.keys = self.keys[:self.pos] + back + self.keys[self.pos:]
                mod = self.vc_motion(op, a1, ybuf)
            elif c in 'iaIAoO':
                mod = self.vc_insert(c)
            elif c in 'pP':
                mod = self.vc_put(c, a1, ybuf)
            elif c == 'J':
                mod = self.vc_join(a1)
            elif c == 'r':
                mod = self.vc_replace(a1)
            elif c in '\x1b\x03':
                pass
            elif c == 'm':
                m = self.read()
                raise Unknown('marks')
            elif c in 'u.@:/?nNqzZ&vVKRUQ=\\#*_' or ord(c) < 32 or c == '\x7f':
                raise Unknown('command %r' % c)
            else:
                pass        # not a command: neatvi ignores the key
        self.wfix()
        if mod:
            self.xcol = self.off2col(self.row, self.off) if self.n() else 0

    def vc_insert(self, cmd):
        s = self.ln(self.row)
        if cmd == 'I':
            self.off = self.indents(self.row)
        if cmd == 'A':
            self.off = self.eol(self.row)
        self.off = self.noeol(self.row, self.off)
        off = 0
        if cmd == 'o':
            self.row += 1
        if cmd in 'iI':
            off = self.off
        if cmd in 'aA':
            off = self.off + 1
        if s and s[0] == '\n':
            off = 0
        if s and cmd not in 'oO':
            pref, post = s[:off], s[off:]
        else:
            pref = ''
            if self.ai and s:
                k = 0
                while s[k] in ' \t':
                    k += 1
                pref = s[:k]
            post = '\n'
        row0 = self.row
        rep, post2 = self.led_input(pref, post)
        if cmd in 'oO' and not self.n():
            self.L.insert(0, '')
        if rep is None:
            return False
        row, off2 = self.insert_result(rep, post2)
        self.edit(rep, row0, row0 + (0 if cmd in 'oO' else 1))
        self.row = row0 + row - 1
        self.off = off2
        return True

    def vc_put(self, cmd, a1, ybuf):
        cnt = max(1, a1)
        r = self.reg_get(ybuf)
        if not r or not r[0]:
            return False
        buf, lnmode = r
        if lnmode:
            text = buf * cnt
            if not self.n():
                self.L.insert(0, '')
            if cmd == 'p':
                self.row += 1
            self.edit(text, self.row, self.row)
            self.off = self.indents(self.row)
        else:
            s = self.ln(self.row) if self.row < self.n() else '\n'
            if s is None:
                s = '\n'
            n = len(s)
            o = self.off
            if o >= n:
                o = max(0, n - 1)
            if o > 0 and s[o] == '\n':
                o -= 1
            off = o + (1 if (s[0] != '\n' and cmd == 'p') else 0)
            new = s[:off] + buf * cnt + s[off:]
            self.edit(new, self.row, self.row + 1)
            self.off = off + len(buf) * cnt - 1
        return True

    def vc_join(self, a1):
        cnt = 2 if a1 <= 1 else a1
        beg, end = self.row, self.row + cnt
        if self.ln(beg) is None or self.ln(end - 1) is None:
            return False
        sb = ''
        off = 0
        for i in range(beg, end):
            s = self.L[i]
            if i > beg:
                s = s.lstrip(' \t')
            spaces = 0
            if i > beg:
                nextc = s[0] if s else '\n'
                if not sb:
                    spaces = 0
                elif sb[-1] == ' ' or nextc == ')':
                    spaces = 0
                else:
                    spaces = 2 if sb[-1] == '.' else 1
            off = len(sb)
            sb += ' ' * spaces + s
        self.edit(sb + '\n', beg, end)
        self.off = off
        return True

    def vc_replace(self, a1):
        cnt = max(1, a1)
        ch = self.readchar()
        s = self.ln(self.row)
        if s is None or ch is None:
            return False
        off = self.noeol(self.row, self.off)
        if len(s) - 1 - off < cnt:
            return False
        new = s[:off] + ch * cnt + s[off + cnt:]
        self.edit(new, self.row, self.row + 1)
        if ch == '\n':
            self.row += cnt
            self.off = 0
        else:
            self.off = off + cnt - 1
        return True

    def run(self, keys):
        self.keys = keys
        self.pos = 0
        while self.pos < len(self.keys):
            self.step()
