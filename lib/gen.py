"""Seeded generators for buffer texts and for vi / ex programs (grammars, not byte soup)."""

ASCII_WORDS = ['foo', 'bar', 'baz', 'x', 'a1', 'hello', 'World', 'if', 'foo_bar', 'ab', 'abc', 'Z']
PUNCT = ['.', ',', ';', '(', ')', '[', ']', '{', '}', '-', '+', '=', '*', '/', '"', "'", '!', '?', ':', '<', '>', '|', '&', '%', '$', '#', '@', '^', '~', '`', '\\']
MB_WORDS = ['été', 'naïve', 'Ünï', 'λόγος', 'день', '日本語', '中文', 'ａｂ', '😀', 'éa', 'x̀́', 'سلام', 'کتاب', 'مَرْحَبا', 'می‌خواهم', '€5', '𝐀𝐁']
BLANKS = [' ', ' ', ' ', '  ', '\t', ' \t', '\t\t']


def rand_line(R, kind='mixed', maxwords=8):
    """one line of text without the terminator"""
    if kind == 'empty':
        return ''
    k = R.random()
    if kind == 'ascii':
        pool = ASCII_WORDS * 3 + PUNCT
    elif kind == 'ltr':          # multi-byte but left-to-right only (no Arabic), for the vi models
        pool = ASCII_WORDS * 3 + PUNCT + [w for w in MB_WORDS if not any('؀' <= c <= 'ۿ' or c in '‌‍' for c in w)]
    else:
        pool = ASCII_WORDS * 2 + PUNCT + MB_WORDS * 2
    if k < 0.08:
        return ''
    if k < 0.12:
        return R.choice(BLANKS)
    if k < 0.17:
        return R.choice(pool)[:1]
    n = R.randint(1, maxwords)
    out = []
    if R.random() < 0.25:
        out.append(R.choice(BLANKS))
    for i in range(n):
        out.append(R.choice(pool))
        if i + 1 < n:
            out.append(R.choice(BLANKS) if R.random() < 0.8 else '')
    if R.random() < 0.1:
        out.append(R.choice(BLANKS))
    return ''.join(out)


def rand_buffer(R, kind='mixed', maxlines=12, allow_empty=True):
    """list of lines (no terminators)"""
    k = R.random()
    if allow_empty and k < 0.06:
        return []
    if k < 0.15:
        n = 1
    elif k < 0.8:
        n = R.randint(2, maxlines)
    else:
        n = R.randint(maxlines, maxlines * 3)
    return [rand_line(R, kind) for _ in range(n)]


def long_line(R, kind='mixed', width=200):
    out = []
    while sum(len(x) for x in out) < width:
        out.append(rand_line(R, kind, 6))
        out.append(' ')
    return ''.join(out)


def buf_bytes(lines, final_newline=True):
    if not lines:
        return b''
    s = '\n'.join(lines)
    return (s + ('\n' if final_newline else '')).encode('utf-8')


# ---------------------------------------------------------------------------------------------
# ex programs

def ex_addr(R, n, allow_bad=False):
    """an address expression for a buffer believed to have n lines"""
    k = R.random()
    if n <= 0:
        return R.choice(['', '0', '1', '$', '.']) if allow_bad else ''
    if k < 0.3:
        return str(R.randint(1, n))
    if k < 0.4:
        return '.'
    if k < 0.5:
        return '$'
    if k < 0.6:
        return ''
    if k < 0.7:
        return R.choice(['.+1', '.-1', '$-1', '+', '-', '+2', '1+1'])
    if k < 0.8 or not allow_bad:
        a = R.randint(1, n)
        b = R.randint(a, n)
        return '%d,%d' % (a, b)
    return R.choice(['0', str(n + 1), str(n + 5), '0,1', '5,2', '$+1', "'q", '/zzzz/', '-99', '1,%d' % (n + 2)])


def ex_text_block(R, kind='ascii', maxl=3):
    lines = [rand_line(R, kind, 4) for _ in range(R.randint(0, maxl))]
    lines = [l if l != '.' else '..' for l in lines]
    return ''.join(l + '\n' for l in lines) + '.\n'


def ex_modify(R, n, kind='ascii'):
    """one modifying ex command (bytes incl. newline and any text block); n = believed line count"""
    k = R.random()
    a = ex_addr(R, n)
    single = a.split(',')[0]
    if k < 0.18:
        return ('%ss/%s/%s/%s\n' % (a, R.choice(['a', 'o', 'foo', 'b.', '[a-c]', ' ', 'x*', '^', '$', 'é', '(.)(.)']),
                                    R.choice(['X', '', 'yy', '\\0\\0', '\\1', 'é', ' ']), R.choice(['', 'g']))).encode()
    if k < 0.3:
        return ('%sd\n' % a).encode()
    if k < 0.42:
        return ('%sa\n' % single).encode() + ex_text_block(R, kind).encode()
    if k < 0.5:
        return ('%si\n' % single).encode() + ex_text_block(R, kind).encode()
    if k < 0.58:
        return ('%sc\n' % a).encode() + ex_text_block(R, kind).encode()
    if k < 0.66:
        return ('%sy\n%spu\n' % (a, R.choice(['', '$', '1']))).encode()
    if k < 0.72:
        return ('%s!%s\n' % (a or '.', R.choice(['sort', 'tr a-z A-Z', 'rev', 'cat', 'sed p', 'sed 1d', 'false']))).encode()
    if k < 0.8:
        return ('g/%s/%s\n' % (R.choice(['a', 'o', '^$', 'foo', '.', 'é']), R.choice(['d', 's/$/!/', 's/^/> /', 'pu', 'y|pu', '-1d', '+1d', 'j'.replace('j', 'd')]))).encode()
    if k < 0.86:
        return ('v/%s/%s\n' % (R.choice(['a', 'o', 'foo']), R.choice(['d', 's/$/!/']))).encode()
    if k < 0.92:
        return ('%sd|%ss/%s/%s/\n' % (single, '', R.choice(['a', 'o', 'b']), 'Q')).encode()
    if k < 0.96:
        return ('%sr f2\n' % single).encode()
    return ('%s,%sd\n' % (single or '.', R.choice(['.', '$', single or '.']))).encode()


# ---------------------------------------------------------------------------------------------
# vi programs

MOTIONS_CHAR = ['h', 'l', '0', '^', '$', 'w', 'b', 'e', 'W', 'B', 'E', ' ', '\x08', ';', ',', '|']
MOTIONS_LINE = ['j', 'k', 'G', '+', '-', '_', '\n', 'H', 'M', 'L']
MOTIONS_OTHER = ['{', '}', '%']


def vi_count(R, big=False):
    k = R.random()
    if k < 0.6:
        return ''
    if k < 0.9:
        return str(R.randint(1, 4))
    return str(R.choice([7, 12, 99] if big else [5, 9]))


def vi_findch(R, chars):
    return R.choice('fFtT') + R.choice(chars)


def vi_motion(R, chars='aoxb .,(é'):
    k = R.random()
    if k < 0.5:
        m = R.choice(MOTIONS_CHAR)
        return (vi_count(R) if m != '0' else '') + m      # '0' after a count would be read as part of the count
    if k < 0.7:
        return vi_count(R) + R.choice(MOTIONS_LINE)
    if k < 0.8:
        return R.choice(MOTIONS_OTHER)
    if k < 0.92:
        return vi_count(R) + vi_findch(R, chars)
    if k < 0.97:
        # searches as motions: literal patterns, sometimes a line offset after the closing delimiter, n / N
        w = R.choice(['a', 'o', 'b', 'ab', 'foo', 'x', 'ar', 'Wo'])
        return R.choice(['', '', '2']) + R.choice(['/%s\n' % w, '/%s\n' % w, '?%s\n' % w, '/%s/+1\n' % w, '/%s/0\n' % w, '?%s?-1\n' % w, 'n', 'n', 'N', '/\n', '?\n'])
    return R.choice(["'a", '`a', "''"])


def vi_insert_text(R, kind='ltr', multiline=True, keys=True):
    """text typed in insert mode incl. editing keys; ends with ESC"""
    parts = []
    n = R.randint(1, 4)
    for i in range(n):
        parts.append(R.choice(ASCII_WORDS + (MB_WORDS[:9] if kind != 'ascii' else []) + [' ', ' ', '.', '(x)']))
        if keys and R.random() < 0.25:
            parts.append(R.choice(['\x08', '\x17', '\x15', '\x08\x08', '\x14', '\x04', '\x16\t', '\x0bo/' if False else '\x08']))
        if multiline and R.random() < 0.15:
            parts.append('\n')
    return ''.join(parts) + '\x1b'


def vi_edit(R, kind='ltr', chars='aoxb .,(é', filters=True):
    """one change command of the vi grammar; returns (keys:str, cls)"""
    k = R.random()
    reg = R.choice(['', '', '', '"a', '"b', '"A', '"1', '"\\x']) if R.random() < 0.3 else ''
    cnt = vi_count(R)
    if k < 0.16:
        return reg + cnt + R.choice(['x', 'X', 'D', 'dd', 'J', '~', 'yy', 'Y']), 'simple'
    if k < 0.36:
        op = R.choice(['d', 'd', 'y', 'c', '>', '<', 'g~', 'gu', 'gU'])
        mot = vi_motion(R, chars)
        keys = reg + cnt + op + mot
        if op == 'c':
            keys += vi_insert_text(R, kind)
        return keys, 'op'
    if k < 0.46:
        op = R.choice(['dd', 'cc', 'yy', '>>', '<<', 'g~g~' if False else 'dd'])
        keys = reg + cnt + op
        if op == 'cc':
            keys += vi_insert_text(R, kind)
        return keys, 'linewise'
    if k < 0.66:
        return cnt + R.choice('iaIAoO') + vi_insert_text(R, kind), 'insert'
    if k < 0.74:
        return reg + cnt + R.choice('pP'), 'put'
    if k < 0.8:
        return cnt + 'r' + R.choice(chars + '\n'), 'replace'
    if k < 0.86:
        return R.choice(['C', 's', 'S']) + vi_insert_text(R, kind), 'change'
    if k < 0.9 and filters:
        return '!' + R.choice(['}', 'j', '!', 'G']) + R.choice(['sort', 'tr a-z A-Z', 'rev', 'cat']) + '\n', 'filter'
    if k < 0.95:
        return ':' + R.choice(['s/a/A/', 's/o/0/g', 'd', 'pu', '1,2d', 'g/a/s/$/!/', '%s/x/y/', 'y|pu']) + '\n', 'ex'
    return cnt + '.', 'repeat'


def vi_misc(R):
    return R.choice(['u', 'u', '\x12', 'ma', 'mb', '\x07', '\x05', '\x19', '\x04', '\x15', '\x06', '\x02', 'z\n', 'z.', 'z-', '\x0c', 'n', 'N', '/a\n', '?o\n', '\x01',
                     'ze', 'zf', 'ga', ':se hll\n', ':se nohl\n', ':se noai\n', ':se ic\n', ':se noic\n'])


def vi_program(R, n, kind='ltr', chars='aoxb .,(é'):
    """list of (keys, cls)"""
    out = []
    for _ in range(n):
        k = R.random()
        if k < 0.4:
            out.append((vi_motion(R, chars), 'motion'))
        elif k < 0.85:
            out.append(vi_edit(R, kind, chars))
        else:
            out.append((vi_misc(R), 'misc'))
    return out
