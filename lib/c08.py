"""C08: vi operators, inserts, puts and registers transform text per the reference model.

Reference-model monitor on the real `vi -v` (ASan+UBSan): a program of editing commands is typed;
then a marker is inserted at the cursor and registers a, b, unnamed, 1, 2, 3 and an extended one
are revealed by putting them at the end of the buffer.  The whole key stream (program and tail) is
run through model_vi and the written file must be identical.
"""
import common, gen, c17, c06
import model_vi as mv
from common import pmap, rng, build

MARK = '\ue000'
TAIL = '\x1bi' + MARK + '\x1bG"ap"bp""p"1p"2p"3p"\\xp:w! out\n'
SHELL = {'sort': c06.SHELL['sort'], 'tr a-z A-Z': c06.SHELL['tr a-z A-Z'], 'cat': c06.SHELL['cat']}
OPS = ['d', 'c', 'y', '<', '>', 'g~', 'gu', 'gU']
MOTS = ['h', 'l', 'j', 'k', '0', '^', '$', 'w', 'b', 'e', 'W', 'B', 'E', 'fa', 'Fo', 'tx', 'T ', ';', ',', 'G', '+', '-', '_', '%', '{', '}', ' ', '5|']


APPEND_BASE = 1 << 50


def make_append_case(idx):
    """register append family: a store into "a / "b (line-wise or character-wise), one or two appends through the upper-case
    name with the other kind (the kind of the LAST store decides how the register is put), then puts; the tail reveals a and b."""
    R = rng('c08app', idx)
    kind = R.choice(['ascii', 'ltr'])
    lines = [gen.rand_line(R, kind, 5) or 'ab cd' for _ in range(R.randint(2, 5))]
    lw = lambda: R.choice(['yy', 'Y', 'dd', '2yy', 'yj', 'dk', 'y_'])
    cw = lambda: R.choice(['ye', 'yw', 'dw', 'x', 'yl', 'y$', 'D', 'dfa', '2x', 'yb'])
    mv_ = lambda: R.choice(['', 'j', 'k', 'w', '0', '$', 'b', 'l'])
    r = R.choice('ab')
    first, rest = (lw, cw) if R.random() < 0.6 else (cw, lw)
    prog = ['%dG' % R.randint(1, len(lines)), mv_(), '"' + r + first(), mv_()]
    for _ in range(R.randint(1, 3)):
        prog += ['"' + r.upper() + (rest if R.random() < 0.75 else first)(), mv_()]
    for _ in range(R.randint(1, 2)):
        prog += [R.choice(['"%sp', '"%sP', '2"%sp']) % r, mv_()]
    if R.random() < 0.3:
        prog += ['"' + r.upper() + R.choice([lw, cw])(), '"%sp' % r]
    return {'lines': lines, 'keys': ''.join(prog), 'idx': idx}


def make_case(idx):
    if idx >= APPEND_BASE:
        return make_append_case(idx)
    R = rng('c08', idx)
    kind = R.choice(['ascii', 'ltr', 'ltr'])
    mode = R.random()
    if mode < 0.08:
        # searches as operator motions: character-wise up to the match, line-wise when a line offset follows the closing delimiter;
        # an offset belongs to the search it was typed with, not to later ones
        lines = [' '.join(R.choice(['foo', 'bar', 'ab', 'x', 'World', 'a1', 'o']) for _ in range(R.randint(1, 5))) for _ in range(R.randint(3, 7))]
        w = lambda: R.choice(['a', 'o', 'b', 'ab', 'foo', 'x', 'ar', 'Wo', '$', '$', '^'])
        srch = lambda: R.choice(['/%s\n', '/%s\n', '?%s\n', '/%s/+1\n', '/%s/0\n', '?%s?-1\n', '/%s/1\n']) % w()
        prog = ['%dG' % R.randint(1, len(lines)), R.choice(['', '0', 'w', '$'])]
        for _ in range(R.randint(2, 5)):
            x = R.random()
            if x < 0.3:
                prog.append(srch())
            elif x < 0.8:
                op = R.choice(['d', 'd', 'y', 'c', '>', 'gU'])
                prog.append(R.choice(['', '', '"a']) + op + R.choice([srch(), srch(), 'n', 'N']) + ('X\x1b' if op == 'c' else ''))
            else:
                prog.append(R.choice(['p', 'P', '"ap', 'u', 'j', 'k', 'w']))
        keys = ''.join(prog)
    elif mode < 0.4:
        # operator x motion x count x register on a small buffer, from a chosen position
        lines = [gen.rand_line(R, kind, 5) for _ in range(R.randint(1, 5))]
        if R.random() < 0.1:
            lines = [] if R.random() < 0.3 else ['']
        r0 = R.randrange(max(1, len(lines)))
        o0 = R.randrange(max(1, len(lines[r0]) if lines else 1))
        pre = '%dG0' % (r0 + 1) + ('%dl' % o0 if o0 else '')
        if R.random() < 0.25:
            pre += R.choice(['fa', 'to', 'Fx'])
        reg = R.choice(['', '', '"a', '"b', '"A', '"1', '"\\x'])
        op = R.choice(OPS)
        c1 = R.choice(['', '', '2', '3'])
        c2 = R.choice(['', '', '2', '9'])
        m = R.choice(MOTS + [op[-1] if len(op) == 1 else op[-1]])
        keys = pre + reg + c1 + op + c2 + m
        if op == 'c':
            keys += gen.vi_insert_text(R, kind)
        if R.random() < 0.5:
            keys += R.choice(['p', 'P', '"ap', '2p', 'x', 'J', '~'])
    else:
        lines = gen.rand_buffer(R, kind, 8, allow_empty=R.random() < 0.3)
        prog = []
        for _ in range(R.randint(2, 10)):
            if R.random() < 0.3:
                m = gen.vi_motion(R)
                if m.startswith(("'", '`')):
                    continue
                prog.append(m)
            else:
                k, cls = gen.vi_edit(R, kind, filters=True)
                if cls in ('ex', 'repeat') or 'rev' in k:
                    continue
                prog.append(k)
        keys = ''.join(prog)
    return {'lines': lines, 'keys': keys, 'idx': idx}


def run_case(args):
    vi, idx, W = args
    case = make_case(idx)
    keys = case['keys'] + TAIL
    noai = idx % 6 == 0          # autoindent off: no indent is carried over AND no blanks are stripped
    M = mv.Vi(case['lines'], W, rows=23, shell=SHELL, ai=not noai)
    try:
        M.run(keys[:-len(':w! out\n')])
    except mv.Unknown as e:
        return ('cut', str(e), None, False)
    except (IndexError, ValueError, TypeError) as e:
        return ('model-error', 'model raised %r on keys %r lines %r' % (e, case['keys'], case['lines']), {'index': idx, 'lines': case['lines'], 'keys': case['keys']}, False)
    r, d = common.run_vi(vi, ((':se noai\n' if noai else '') + keys).encode('utf-8'), files={'f1': gen.buf_bytes(case['lines'])}, timeout=60)
    out = common.readf(d, 'out')
    common.rmcase(d)
    wit = {'index': idx, 'lines': case['lines'], 'keys': (':se noai\n' if noai else '') + case['keys']}
    rep = common.san_report(r)
    if rep:
        return (rep, 'sanitizer/crash: keys %r: %s' % (case['keys'], r.err[-400:].decode('latin-1')), wit, False)
    if r.timed_out or out is None:
        return ('inconclusive', None, wit, False)
    want = gen.buf_bytes(M.L)
    if out != want:
        try:
            got = out.decode('utf-8').split('\n')
        except UnicodeDecodeError:
            return ('edit:invalid-utf8', 'keys %r on %r wrote invalid UTF-8' % (case['keys'], case['lines']), wit, False)
        exp = want.decode('utf-8').split('\n')
        i = next((k for k in range(min(len(got), len(exp))) if got[k] != exp[k]), min(len(got), len(exp)))
        # what differs: text before the marker line, the marker (cursor), or the revealed registers
        return ('edit:result', 'keys %r on %r: file differs from the reference at line %d: got %r, reference %r (got %d lines, reference %d)' % (
            case['keys'], case['lines'], i + 1, got[i] if i < len(got) else None, exp[i] if i < len(exp) else None, len(got), len(exp)), wit, False)
    return (None, None, None, M.L != (case['lines'] or M.L))


def run(tier, V):
    vi = build('asan')
    W = c17.Widths()
    n = 5000 if tier == 'quick' else 40000
    base = common.seed() * 141650939 % (1 << 40)
    napp = 400 if tier == 'quick' else 4000
    res = pmap(run_case, [(vi, base + i, W) for i in range(n)] + [(vi, APPEND_BASE + base + i, W) for i in range(napp)], procs=True)
    nontriv = 0
    cuts = {}
    for key, what, wit, nt in res:
        if key == 'inconclusive':
            V.inconclusive += 1
        elif key == 'cut':
            cuts[what[:40]] = cuts.get(what[:40], 0) + 1
        elif key:
            V.violation(key, what, wit)
        elif nt:
            nontriv += 1
    c0 = make_case(base)
    cov = {'evaluations': n + napp, 'distinct_nontrivial': nontriv, 'cut_by_model': cuts,
           'rule': ('%d programs: (a) operator x motion x {count before, count after} x register prefix from chosen start positions on small buffers; (b) random programs of 2-10 commands from d c y < > ! g~ gu gU x X D C s S Y p P J r ~ i a I A o O '
                    '(c) %d register-append sequences: a line-wise or character-wise store into a named register, appends of the other kind through the upper-case name, puts; ' 'with insert sessions using ^H ^W ^U ^T ^D ^V and multi-line input, over ASCII and multi-byte buffers incl. empty buffers and lines.  compared: whole written file = text + cursor marker + registers a, b, unnamed, 1, 2, 3, \\\\x put at the end.  '
                    'non-trivial = the program changed the text.' % (n, napp)),
           'samples': [{'lines': c0['lines'][:4], 'keys': c0['keys']}]}
    assumptions = ['reference = model_vi (span semantics literal: exclusive unless the motion is one of f F t T e E %, line-wise for line motions / doubled operators)', 'left-to-right text; ^P ^R ^A ^K and keymaps in insert mode are outside the statement (program cut)']
    return cov, assumptions


def REPLAY(w):
    return run_case((build('asan'), w['index'], c17.Widths()))[:2]
