"""C17: screen-column layout is a gap-free tiling; cursor/column mapping round-trips.

Algebraic-law monitor over the arrays the probe reads from ren_position/ren_pos/ren_off/ren_next/
ren_cursor/ren_noeol, plus a table-driven width oracle (tables parsed from uc.c / conf.h and
searched linearly) over every code point.
"""
import itertools, os
import common, tables
from common import pmap, rng, build, VERIF

PROBE = os.path.join(VERIF, 'probe', 'probe.c')


class Widths:
    def __init__(self):
        self.ok = True
        self.notes = []
        t = {}
        for n in ('dwchars', 'zwchars', 'bchars'):
            tab = tables.range_table(n)
            if tab is None:
                self.ok = False
                self.notes.append('could not parse %s from uc.c' % n)
                tab = []
            t[n] = tables.RangeSet(tab)
        self.dw, self.zw, self.b = t['dwchars'], t['zwchars'], t['bchars']
        ph = tables.placeholders()
        if ph is None:
            self.notes.append('could not parse placeholders from conf.h')
            self.ok = False
            ph = []
        self.ph = {ord(s[0]): w for s, d, w in ph if len(s) == 1}

    def uc_wid(self, c):
        if c in self.zw:
            return 0
        return 2 if c in self.dw else 1

    def isbell(self, c):
        if c in (32, 9, 10) or 0x20 <= c < 0x7f:
            return 0
        return 1 if (c in self.zw or c in self.b) else 0

    def cwid(self, c, pos):
        if c == 9:
            return 8 - pos % 8
        if c in self.ph:
            return self.ph[c]
        if self.isbell(c):
            return 1
        return self.uc_wid(c)


def check_classes(args):
    exe, lo, hi, W = args
    r = common.run([exe], ('ucr %d %d\n' % (lo, hi)).encode(), env=common.base_env('/tmp'), timeout=600)
    bad = []
    n = 0
    classes = set()
    for ln in r.out.decode('ascii', 'replace').split('\n'):
        if not ln or ln == 'END':
            continue
        f = ln.split()
        cp = int(f[0], 16)
        n += 1
        wid, bell = int(f[8]), int(f[9])
        cw0, cw7 = int(f[12]), int(f[13])
        ew, eb = W.uc_wid(cp), W.isbell(cp)
        classes.add((ew, eb))
        if wid != ew:
            bad.append(('width-class:uc_wid', 'U+%04X uc_wid=%d but the tables say %d' % (cp, wid, ew), {'cp': cp}))
        if bell != eb:
            bad.append(('width-class:uc_isbell', 'U+%04X uc_isbell=%d but the tables say %d' % (cp, bell, eb), {'cp': cp}))
        if cw0 != W.cwid(cp, 0) or cw7 != W.cwid(cp, 7):
            bad.append(('width-class:ren_cwid', 'U+%04X cell width at col 0/7 = %d/%d expected %d/%d' % (cp, cw0, cw7, W.cwid(cp, 0), W.cwid(cp, 7)), {'cp': cp}))
    rep = common.san_report(r)
    if rep:
        bad.append((rep, 'sanitizer/crash in ucr %x..%x %s' % (lo, hi, r.err[-400:].decode('latin-1')), {}))
    return n, bad, classes


def parse_ren(line):
    f = line.split()
    out = {'n': int(f[0])}
    cur = None
    for t in f[1:]:
        if t in ('pos', 'wid', 'ctx', 'rp', 'ro', 'rn', 'rb', 'rc', 'ne'):
            cur = t
            out[cur] = []
        else:
            out[cur].append(int(t))
    return out


def laws(s, g, W, opts):
    """s: python str (line); g: parsed probe output.  Returns list of (key, what)."""
    bad = []
    cps = [ord(c) for c in s]
    n = len(cps)
    if g['n'] != n or len(g['pos']) != n + 1:
        return [('ren:length', 'n=%s pos has %d entries for a %d-char line' % (g['n'], len(g['pos']), n))]
    pos = g['pos'][:n]
    total = g['pos'][n]
    vis = sorted(range(n), key=lambda i: (pos[i], i))       # visual order
    # L1: tiling in visual order, widths by class
    col = 0
    for k, i in enumerate(vis):
        if pos[i] != col:
            bad.append(('tiling:gap', 'char #%d (U+%04X) starts at col %d but the previous one ended at %d' % (i, cps[i], pos[i], col)))
            break
        col += W.cwid(cps[i], col)
    else:
        if total != col:
            bad.append(('tiling:total', 'total width %d but cells end at %d' % (total, col)))
    if g['wid'][0] != total:
        bad.append(('ren_wid', 'ren_wid=%d pos[n]=%d' % (g['wid'][0], total)))
    if bad:
        return bad
    w = {i: W.cwid(cps[i], pos[i]) for i in range(n)}
    rank = {i: k for k, i in enumerate(vis)}

    def at(c):      # character whose cell contains column c (or the visually last one)
        best = None
        for i in vis:
            if pos[i] <= c:
                best = i
        return best
    # ren_pos
    for i in range(n):
        if g['rp'][i] != pos[i]:
            bad.append(('ren_pos', 'ren_pos(%d)=%d but pos[%d]=%d' % (i, g['rp'][i], i, pos[i])))
        if w[i] > 0 and g['ro'][pos[i]] != i if pos[i] < len(g['ro']) else False:
            bad.append(('roundtrip', 'ren_off(ren_pos(%d)=%d)=%d' % (i, pos[i], g['ro'][pos[i]])))
    # ren_off for every column
    for c in range(len(g['ro'])):
        a = at(c)
        exp = a if a is not None else 0
        if n and w.get(exp, 1) > 0 and g['ro'][c] != exp:
            bad.append(('ren_off', 'ren_off(col %d)=%d expected char %d' % (c, g['ro'][c], exp)))
    # ren_next both directions
    for name, d in (('rn', +1), ('rb', -1)):
        for c in range(len(g[name])):
            a = at(c)
            if a is None:
                exp = -1
            else:
                k = rank[a] + d
                if 0 <= k < n and cps[vis[k]] != 10:
                    exp = pos[vis[k]]
                else:
                    exp = -1
            if g[name][c] != exp:
                bad.append(('ren_next', 'ren_next(col %d, %+d)=%d expected %d' % (c, d, g[name][c], exp)))
    # ren_cursor: inside the cell span of the character under the column (previous if that is the newline)
    for c in range(len(g['rc'])):
        a = at(c)
        if a is None:
            continue
        if cps[a] == 10 and rank[a] > 0:
            a = vis[rank[a] - 1]
        lo, hi = pos[a], pos[a] + max(w[a], 1)
        if not (lo <= g['rc'][c] < hi):
            bad.append(('ren_cursor', 'ren_cursor(col %d)=%d outside the cell [%d,%d) of char %d' % (c, g['rc'][c], lo, hi, a)))
    # ren_noeol
    for o in range(len(g['ne'])):
        if o < n and cps[o] != 10:
            exp = o
        else:
            oo = min(o, max(0, n - 1))
            exp = oo - 1 if (oo > 0 and cps[oo] == 10) else oo
        if g['ne'][o] != exp:
            bad.append(('ren_noeol', 'ren_noeol(%d)=%d expected %d' % (o, g['ne'][o], exp)))
    # logical order must be kept whenever reordering is off for this line
    order, td, lim = opts
    reorder = n <= lim and (order == 2 or (order == 1 and any(c > 127 for c in cps)))
    if not reorder and vis != list(range(n)):
        bad.append(('order-off:reordered', 'order=%d lim=%d: line was reordered although reordering does not apply' % (order, lim)))
    if reorder and len(set(pos)) == n:
        # ... and where it applies, the cells run in the order the bidi reference (C18) gives
        import c18
        global _R2L
        if _R2L is None:
            _R2L = (set(tables.conf_macro('CR2L') or ''), set(tables.conf_macro('CNEUT') or ''))
        body = s
        ctx = c18.model_ctx(body, td, _R2L[0])
        exp = c18.model_ord(body, ctx, _R2L[0], _R2L[1]) if _R2L[0] else None
        if exp is not None and len(body) <= 120:
            want = sorted(range(n), key=lambda i: exp[i])
            if vis != want:
                bad.append(('order-on:not-reordered', 'order=%d td=%d: characters laid out in the order %s, the reordering applies and gives %s' % (order, td, vis, want)))
    return bad


_R2L = None


def check_lines(args):
    exe, opts, lines, W = args
    order, td, lim = opts
    text = 'opts %d %d %d 1\n' % (order, td, lim) + ''.join('ren %s\n' % (l.encode().hex() or '-') for l in lines)
    r = common.run([exe], text.encode(), env=common.base_env('/tmp'), timeout=900)
    out = [l for l in r.out.decode('ascii', 'replace').split('\n') if l][1:]
    bad = []
    nontriv = 0
    for l, o in zip(lines, out):
        try:
            g = parse_ren(o)
        except Exception:
            bad.append(('probe:parse', 'unparsable ren output', {'line': l}))
            continue
        if any(ord(c) > 127 or c == '\t' for c in l):
            nontriv += 1
        for key, what in laws(l, g, W, opts)[:3]:
            bad.append((key, 'line %r (order=%d td=%d lim=%d): %s' % (l, order, td, lim, what),
                        {'line': l, 'hex': l.encode().hex(), 'order': order, 'td': td, 'lim': lim}))
    rep = common.san_report(r)
    if rep:
        idx = len(out)
        bad.append((rep, 'sanitizer/crash in probe ren on line #%d %r opts=%s: %s' % (idx, lines[idx] if idx < len(lines) else '?', opts, r.err[-500:].decode('latin-1')),
                    {'line': lines[idx] if idx < len(lines) else None, 'opts': opts}))
    elif len(out) != len(lines):
        bad.append(('probe:truncated', 'ren batch gave %d of %d lines (rc=%s timed_out=%s)' % (len(out), len(lines), r.rc, r.timed_out), {}))
    return len(out), nontriv, bad


ALPHA = ['a', '\t', '中', '́', 'ّ', 'ب', ' ']


def run(tier, V):
    exe = build('asan', probe=PROBE)
    W = Widths()
    cov = {'table_parse_ok': W.ok, 'table_notes': W.notes}
    if not W.ok:
        V.inconclusive += 1
    # every code point
    step = 0x110000 // 64 + 1
    res = pmap(check_classes, procs=True, items=[(exe, lo, min(lo + step, 0x110000), W) for lo in range(1, 0x110000, step)])
    ncp = sum(r[0] for r in res)
    classes = set()
    for n, bad, cl in res:
        classes |= cl
        if W.ok:
            for key, what, wit in bad:
                V.violation(key, what, wit)
    cov['code_points_checked'] = ncp
    cov['width_classes_seen'] = sorted(classes)
    # lines
    maxlen = 4 if tier == 'quick' else 5
    base = [''.join(t) for L in range(0, maxlen + 1) for t in itertools.product(ALPHA, repeat=L)]
    lines = [b + '\n' for b in base] + [b for b in base[:400] if b]
    R = rng('c17', 'lines')
    pool = ALPHA + ['b', 'ا', '‌', 'س', '1', '-', 'é', '日', '\x01', '𝐀', '$', '\\']
    nrand = 300 if tier == 'quick' else 3000
    for _ in range(nrand):
        L = R.choice([R.randint(5, 20), R.randint(20, 80), R.randint(80, 300)])
        lines.append(''.join(R.choice(pool) for _ in range(L)) + '\n')
    optsets = [(o, td, lim) for o in (0, 1, 2) for td in (-2, -1, 0, 1, 2) for lim in (0, 3, 256)]
    if tier == 'quick':
        R2 = rng('c17', 'opts')
        keep = [(1, 0, 256), (2, 0, 256), (0, 0, 256), (1, -2, 256), (1, 1, 3), (2, -1, 0)]
        optsets = keep + R2.sample([o for o in optsets if o not in keep], 6)
    jobs = []
    for o in optsets:
        B = 500
        for i in range(0, len(lines), B):
            jobs.append((exe, o, lines[i:i + B], W))
    res = pmap(check_lines, jobs, procs=True)
    nl = sum(r[0] for r in res)
    nontriv = sum(r[1] for r in res)
    for _, _, bad in res:
        for key, what, wit in bad:
            V.violation(key, what, wit)
    import c17bin
    bcov = c17bin.run(tier, V)
    cov.update(bcov)
    cov['lines_checked'] = nl
    cov['option_sets'] = optsets
    cov['evaluations'] = ncp + nl + bcov.get('binary_runs', 0)
    cov['distinct_nontrivial'] = nontriv + len([1 for c in classes]) + bcov.get('binary_nontrivial', 0)
    cov['exhaustive'] = True
    cov['rule'] = ('width classes: every scalar value, probe result vs linear search of the tables parsed from uc.c/conf.h. '
                   'layout laws: ALL lines up to length %d over {a, TAB, wide CJK, combining, placeholder shadda, Arabic beh, space} with and without '
                   'terminator + %d random lines to 300 chars, x %d (order,td,lim) settings; every offset and every column 0..width+2. '
                   'non-trivial = the line contains a tab or a non-ASCII character (distinct (line,options) pairs counted).' % (maxlen, nrand, len(optsets)))
    cov['samples'] = [{'line': lines[1234 % len(lines)], 'opts': optsets[0]}, {'line': lines[-1][:60], 'opts': optsets[1]}] + bcov.get('samples', [])[:2]
    assumptions = ['the three range tables and the placeholder list parsed from uc.c/conf.h are the specification of the width classes (searched linearly by the oracle)',
                   'zero-width and non-printable characters are drawn as a width-1 replacement glyph (ren_placeholder), so their cell is 1 wide']
    return cov, assumptions
