"""C15: global runs its command once per matching line, undone as one step.

Reference-model monitor on the real `vi -s -e` (ASan+UBSan): an identity-based model of :g/:v on
top of model_ex (visit list = the lines of the range by identity; a line is visited iff it still
exists; inserted lines are never visited; the match is evaluated at visit time), plus the observed
text before the global for the single-undo-step clause.
"""
import common, gen
import model_ex as mx
import model_regex as mr
import c14
from common import pmap, rng, build

S = lambda k: b'\x01\x02S%d\x03' % k
PATS = ['a', 'o', 'x', '^$', '^a', 'b$', '.', 'foo', 'T', '!']


def sub_cmd(M, loc, pat, rep, g):
    """:s inside the model: applies to region(loc)"""
    if not M.n():
        raise mx.Reject('empty')
    a, b = M.region(loc)
    ast = mx.parse_simple_re(pat)
    M.lastpat = ast
    for i in range(a - 1, b):
        res, fl = c14.model_subst(M.lines[i].text, ast, rep, g, M.icase)
        if fl['emptyloop']:
            raise mx.Unknown('empty loop')
        if res is not None and res != M.lines[i].text:
            M.lines[i].text = res
            M.dirty = True


def run_list(M, cmds):
    """executes a command list with M.cur set; returns False if the LAST command failed (global stops)"""
    ok = True
    for k, c in enumerate(cmds):
        try:
            if c['cmd'] == 's':
                sub_cmd(M, c['loc'], c['pat'], c['rep'], c['g'])
            elif c['cmd'] in ('g', 'v'):
                model_glob(M, c['loc'], c['pat'], c['cmd'] == 'v', c['list'], nested=True)
            else:
                M._do(c['loc'], c['cmd'], c.get('arg', ''), c.get('text'))
            ok = True
        except mx.Reject:
            ok = False
        M.cur = max(0, min(M.cur, M.n() - 1))
    return ok


INVALID = ('(a', '[a', '(b', 'a\\(')


def model_glob(M, loc, pat, negate, cmds, nested=False):
    # the per-line mark set has room for seven levels: an eighth nested global is refused (documented limit, like the 64 levels of :so / @r)
    M.gdepth = getattr(M, 'gdepth', 0) + 1
    try:
        if M.gdepth > 7:
            raise mx.Reject('nested too deeply')
        return model_glob_(M, loc, pat, negate, cmds, nested)
    finally:
        M.gdepth -= 1


def model_glob_(M, loc, pat, negate, cmds, nested=False):
    if not M.n():
        raise mx.Reject('empty')
    if pat in INVALID:
        raise mx.Reject('pattern does not compile')
    a, b = M.region(loc if (loc or nested) else '%')
    if pat == '':           # empty pattern: the last pattern used (by a search address, a substitute or a global)
        if getattr(M, 'lastpat', None) is None:
            raise mx.Reject('no previous pattern')
        ast = M.lastpat
    else:
        ast = mx.parse_simple_re(pat)
        M.lastpat = ast
    ids = [l.id for l in M.lines[a - 1:b]]
    M.executions = getattr(M, 'executions', 0)
    for lid in ids:
        idx = M.index_of(lid)
        if idx is None:
            continue
        if M.matches(ast, M.lines[idx].text) != negate:
            M.cur = idx
            M.executions += 1
            if not run_list(M, cmds):
                break


def gen_list(R, depth=0):
    """command list; returns (structured list, needs_text_blocks)"""
    k = R.random()
    tag = R.choice('!+#=~')
    if k < 0.05:
        # a command that fails in front of one that succeeds: only the LAST command's status decides whether the scan goes on
        first = R.choice([{'cmd': 'd', 'loc': '+9'}, {'cmd': 'd', 'loc': '-9'}, {'cmd': 's', 'loc': '', 'pat': 'x', 'rep': 'X', 'g': False}, {'cmd': 'pu', 'loc': '', 'arg': 'z'},
                          {'cmd': 's', 'loc': '+9', 'pat': '$', 'rep': '?', 'g': False}])
        return [first, {'cmd': 's', 'loc': '', 'pat': '$', 'rep': tag, 'g': False}]
    if k < 0.08:
        # lines far below the matching line (and below a partial range) go away: the lines still to be visited are the marked ones, wherever they now are
        return R.choice([[{'cmd': 'd', 'loc': '$'}], [{'cmd': 's', 'loc': '', 'pat': '$', 'rep': tag, 'g': False}, {'cmd': 'd', 'loc': '$'}], [{'cmd': 'd', 'loc': '$-1,$'}]])
    if k < 0.16:
        return [{'cmd': 'd', 'loc': ''}]
    if k < 0.30:
        return [{'cmd': 's', 'loc': '', 'pat': '$', 'rep': tag, 'g': False}]
    if k < 0.38:
        return [{'cmd': 's', 'loc': '', 'pat': R.choice(['a', 'o', 'x']), 'rep': R.choice(['A', '', 'xx']), 'g': R.random() < 0.5}]
    if k < 0.46:
        return [{'cmd': 'y', 'loc': '', 'arg': ''}, {'cmd': 'pu', 'loc': '', 'arg': ''}]
    if k < 0.54:
        return [{'cmd': R.choice(['a', 'i', 'c']), 'loc': '', 'text': ['T' + tag] if R.random() < 0.8 else ['T1', 'T2']}]
    if k < 0.60:
        return [{'cmd': 'd', 'loc': '-1'}]
    if k < 0.66:
        return [{'cmd': 'd', 'loc': '+1'}]
    if k < 0.72:
        return [{'cmd': 's', 'loc': '+1', 'pat': '$', 'rep': tag, 'g': False}]
    if k < 0.77:
        return [{'cmd': 'd', 'loc': '.,+1'}]
    if k < 0.81:
        return [{'cmd': 'd', 'loc': '-1,.'}]
    if k < 0.86:
        return [{'cmd': 's', 'loc': '', 'pat': '$', 'rep': tag, 'g': False}, {'cmd': 'd', 'loc': '+1'}]
    if k < 0.90:
        return [{'cmd': 's', 'loc': '-1', 'pat': '^', 'rep': tag, 'g': False}]
    if k < 0.94 and depth == 0:
        return [{'cmd': R.choice(['g', 'v']), 'loc': R.choice(['', '', '.,+1', '-1,.', '.,$', '1,.', '-1,+1']), 'pat': R.choice(PATS), 'list': gen_list(R, 1)}]
    if k < 0.97:
        return [{'cmd': 'pu', 'loc': '', 'arg': 'a'}]
    return [{'cmd': 'k', 'loc': '', 'arg': 'a'}, {'cmd': 's', 'loc': '', 'pat': '$', 'rep': tag, 'g': False}]


def render_list(cmds):
    out = []
    for c in cmds:
        if c['cmd'] == 's':
            pat, rep = c['pat'], c['rep']
            out.append('%ss/%s/%s/%s' % (c['loc'], pat, rep, 'g' if c['g'] else ''))
        elif c['cmd'] in ('g', 'v'):
            out.append('%s%s/%s/%s' % (c['loc'], c['cmd'], c['pat'], render_list(c['list'])))
        elif c['cmd'] in ('a', 'i', 'c'):
            out.append('%s%s' % (c['loc'], c['cmd']))
        else:
            out.append('%s%s%s' % (c['loc'], c['cmd'], (' ' + c['arg']) if c.get('arg') else ''))
    return '|'.join(out)


def text_of(cmds):
    for c in cmds:
        if c['cmd'] in ('a', 'i', 'c'):
            return c['text']
        if c['cmd'] in ('g', 'v'):
            t = text_of(c['list'])
            if t:
                return t
    return None


def run_case(args):
    vi, idx = args
    R = rng('c15', idx)
    words = ['a', 'o', 'x', 'foo', 'ab', 'b', 'xa', 'oo', 'T', '']
    n = R.randint(1, 9)
    big = R.random() < 0.02
    if big:     # the line table (and the per-line global marks) is reallocated at 512, 1024, ... lines: grow across it mid-scan
        n = R.choice([R.randint(490, 511), R.randint(1000, 1023)])
    lines = [' '.join(R.choice(words) for _ in range(R.randint(0, 3))).strip() for _ in range(n)]
    neg = R.random() < 0.25
    pat = R.choice(PATS)
    a = R.randint(1, n)
    b = R.randint(a, n)
    loc = R.choice(['', '', '', '%', '%d,%d' % (a, b), '%d,$' % a, '1,%d' % b, '%d,%d' % (a, b)] + (['1,/%s/' % R.choice(['a', 'o', 'x']), '/%s/,$' % R.choice(['a', 'o', 'b']), '/%s/,/%s/' % (R.choice(['a', 'o']), R.choice(['x', 'b', 'foo'])), '?%s?,$' % R.choice(['a', 'o'])] if idx % 4 == 0 else []))
    cmds = gen_list(R)
    if not big and R.random() < 0.04:
        # globals nested up to the seventh level (the deepest the per-line mark set has a bit for), the innermost with a range of its own
        inner = {'cmd': R.choice(['g', 'v']), 'loc': R.choice(['2,$', '1,$', '.,$', '1,.', '%d,%d' % (a, b)]), 'pat': R.choice(PATS), 'list': [{'cmd': 's', 'loc': '', 'pat': '$', 'rep': R.choice('!+#'), 'g': False}]}
        for _ in range(R.choice([1, 3, 4, 5, 5, 6, 7, 8])):      # (with the innermost and the top-level one: 3 to 10 levels; from the eighth on, refused)
            inner = {'cmd': 'g', 'loc': '', 'pat': R.choice(['.', '.', '^', 'a*', 'x*']), 'list': [inner]}
        cmds = [inner]
        n = min(n, 5)
        lines = lines[:n]
        a, b = min(a, n), min(b, n)
        loc = R.choice(['', '%', '1,%d' % n])
    if big:
        cmds = R.choice([[{'cmd': 'y', 'loc': '', 'arg': ''}, {'cmd': 'pu', 'loc': '', 'arg': ''}],
                         [{'cmd': 's', 'loc': '', 'pat': '$', 'rep': '!', 'g': False}, {'cmd': 'y', 'loc': '', 'arg': ''}, {'cmd': 'pu', 'loc': '', 'arg': ''}],
                         [{'cmd': 'a', 'loc': '', 'text': ['T1', 'T2']}]])
        loc = R.choice(['', '%'])
    pre = b'1y a\n' if R.random() < 0.5 else b''
    first = None
    badfirst = []
    if not big and R.random() < 0.15:
        # an earlier global that inserts lines and is then stopped by a failing last command: whatever it had marked
        # and not yet visited must mean nothing to the next global
        pre = b'1y a\n'
        first = (R.choice(['', '%', '1,%d' % b]), R.choice(PATS), R.choice([
            [{'cmd': 'pu', 'loc': '', 'arg': 'a'}, {'cmd': 'd', 'loc': '+99'}],
            [{'cmd': 'y', 'loc': '', 'arg': ''}, {'cmd': 'pu', 'loc': '', 'arg': ''}, {'cmd': 'pu', 'loc': '', 'arg': 'a'}, {'cmd': 's', 'loc': '+99', 'pat': '$', 'rep': '!', 'g': False}],
            [{'cmd': 'pu', 'loc': '-1', 'arg': 'a'}, {'cmd': 'd', 'loc': '-99'}]]))
        pre += ('%sg/%s/%s\n' % (first[0], first[1], render_list(first[2]))).encode()
    if not big and first is None and R.random() < 0.12:
        # earlier globals whose pattern does not compile (top level or nested): they do nothing and leave nothing behind
        pre = pre or b''
        for _ in range(R.choice([1, 1, 2, 7, 8])):
            fp = R.choice([('', '(a', [{'cmd': 'd', 'loc': ''}]), ('', '[a', [{'cmd': 'd', 'loc': ''}]),
                           ('', R.choice(PATS), [{'cmd': 'g', 'loc': '', 'pat': '(b', 'list': [{'cmd': 'd', 'loc': ''}]}])])
            badfirst.append(fp)
            pre += ('%sg/%s/%s\n' % (fp[0], fp[1], render_list(fp[2]))).encode()
    switched = False
    if not big and first is None and not badfirst and R.random() < 0.08:
        # an earlier global whose command list left for another buffer (its scan ends there); back in this buffer, whatever that
        # global had marked and not yet visited must mean nothing to the next one
        switched = True
        pre = (pre or b'') + ('%sg/%s/%s\n' % (R.choice(['', '%', '1,%d' % b]), R.choice(PATS + ['.', '.']), R.choice(['e! f2', 'e! f2', 'b 9|e! f2']))).encode() + b'e! f1\n1\n'
    setpat = None
    if not big and R.random() < 0.08 and '/' not in loc and '?' not in loc:
        # the global is written with an empty pattern: it uses the pattern of an earlier command
        setpat = R.choice(['a', 'o', 'x', 'foo'])
        pre = (pre or b'') + b'1s/%s/%s/\n' % (setpat.encode(), setpat.encode())
        pat = ''
    gcmd = ('%s%s/%s/%s\n' % (loc, 'v' if neg else 'g', pat, render_list(cmds))).encode()
    # model first (to know how many text blocks the executions will read)
    M = mx.Ex(lines, icase=True)
    if pre.startswith(b'1y a'):
        M._do('1', 'y', 'a', None)
    for fp in badfirst:
        try:
            model_glob(M, fp[0], fp[1], False, fp[2])
        except mx.Reject:
            pass
        except (mx.Unknown, mr.Budget, RecursionError, ValueError):
            return ('cut', None, None, 0)
        M.cur = max(0, min(M.cur, M.n() - 1))
    if first:
        try:
            model_glob(M, first[0], first[1], False, first[2])
        except mx.Reject:
            pass
        except (mx.Unknown, mr.Budget, RecursionError, ValueError):
            return ('cut', None, None, 0)
        M.cur = max(0, min(M.cur, M.n() - 1))
        if (a > M.n() or b > M.n()) and loc not in ('', '%'):
            return ('cut', None, None, 0)
    if setpat:
        M.lastpat = mx.parse_simple_re(setpat)       # (pre ends with the substitute that sets it)
    prefail = b''
    if not big and M.n() and R.random() < 0.1:
        # a command line that edits and then fails, directly in front of the global: the global is still an undo step of its own
        sub_cmd(M, '1', '$', 'Q', False)
        prefail = b'1s/$/Q/|' + R.choice([b'99999p', b'nosuchcommand', b"'zp"]) + b'\n'
    before_model = gen.buf_bytes(M.texts())
    try:
        M.executions = 0
        model_glob(M, loc, pat, neg, cmds)
        rejected = False
    except mx.Reject:
        rejected = True
    except (mx.Unknown, mr.Budget, RecursionError, ValueError):
        return ('cut', None, None, 0)
    M.cur = max(0, min(M.cur, M.n() - 1))
    txt = text_of(cmds)
    blocks = b''
    if txt:
        blocks = (''.join(t + '\n' for t in txt) + '.\n').encode() * (M.executions + 3)
    script = pre + b'w! d0\n' + prefail + gcmd + blocks + b'ec ' + S(1) + b'\n.=\nec ' + S(2) + b'\nw! d1\nu\nw! d2\n'
    r, d = common.run_ex(vi, script, files={'f1': gen.buf_bytes(lines), 'f2': b'other file\n'}, timeout=60)
    d0, d1, d2 = (common.readf(d, x) for x in ('d0', 'd1', 'd2'))
    common.rmcase(d)
    wit = {'index': idx, 'lines': lines, 'command': gcmd, 'script': script}
    rep = common.san_report(r)
    if rep:
        return (rep, 'sanitizer/crash: %s on %r: %s' % (common.show(gcmd, 100), lines, r.err[-400:].decode('latin-1')), wit, 0)
    if r.timed_out or (d1 is None and d0 is not None):
        # slow (or the rest of the script was swallowed as text), or a global that never finishes (one that keeps visiting the lines it inserts asks for text block after text block)?
        # Second run with the progress pipe: still executing commands, or asleep waiting for yet more input although the
        # reference is done after a few executions, means the latter.
        d3 = common.case_dir('e')
        common.write_files(d3, {'f1': gen.buf_bytes(lines)})
        r3, state, ncmd = common.run_progress([vi, '-s', '-e', 'f1'], script + b'\n' + common.EX_QUIT, d3, common.base_env(d3), idle=20, total=45)
        common.rmcase(d3)
        if state in ('running', 'starved'):
            return ('global:does-not-finish', '%s on %r: the reference runs the command list %d times and is done; the editor executed %d commands and is still %s' % (
                common.show(gcmd, 120), lines, M.executions, ncmd, 'executing' if state == 'running' else 'asking for more input'), wit, 0)
        if txt and d1 is None and not r.timed_out and not common.san_report(r):
            return ('global:executions', '%s on %r: the reference runs the command list %d times; the editor read more than the %d text blocks provided (the rest of the script, w! d1 included, was taken as text)' % (
                common.show(gcmd, 120), lines, M.executions, M.executions + 3), wit, 0)
        return ('inconclusive', None, wit, 0)
    if d1 is None or d2 is None or d0 is None:
        return ('inconclusive', None, wit, 0)
    want = gen.buf_bytes(M.texts())
    desc = '%s on %r' % (common.show(gcmd, 120), lines)
    if d1 != want:
        return ('global:result', '%s: buffer is %r, reference %r (reference ran %d executions)' % (desc, common.show(d1, 250), common.show(want, 250), M.executions), wit, 0)
    if prefail:
        d0 = before_model      # (no dump between the failing line and the global: any successful command there would hide the effect)
    if d2 != d0 and d1 != d0:
        return ('global:undo-not-one-step', '%s%s: one undo after the global gives %r, text before the global was %r' % ('after the line %s ' % common.show(prefail, 30) if prefail else '', desc, common.show(d2, 200), common.show(d0, 200)), wit, 0)
    out = r.out
    if S(1) in out and S(2) in out and d1 != d0:
        cur = out.split(S(1), 1)[1].split(S(2), 1)[0]
        wantcur = (b'%d\n' % (M.cur + 1)) if M.n() else b''
        if cur != wantcur and not txt:
            return ('global:curline', '%s: current line after the global %r, reference %r' % (desc, cur, wantcur), wit, 0)
    return ('ok' if d1 != d0 else 'ok-trivial', None, None, M.executions)


def run(tier, V):
    vi = build('asan')
    n = 20000 if tier == 'quick' else 200000
    base = common.seed() * 86028121
    res = pmap(run_case, [(vi, base + i) for i in range(n)], procs=True)
    stats = {}
    nex = 0
    for key, what, wit, ne in res:
        k = key if key in ('ok', 'ok-trivial', 'cut', 'inconclusive') else 'violation'
        stats[k] = stats.get(k, 0) + 1
        nex += ne
        if key == 'inconclusive':
            V.inconclusive += 1
        elif k == 'violation':
            V.violation(key, what, wit)
    cov = {'evaluations': n, 'distinct_nontrivial': stats.get('ok', 0), 'outcomes': stats, 'model_executions': nex,
           'rule': ('%d scripts: :g / :v with patterns x ranges x command lists from {d, s, y|pu, pu, a/i/c with text, -1d, +1d, +1s, .,+1d, -1,.d, s|+1d, -1s, nested g/v with and without a range of their own (up to ten levels deep: seven are served, the eighth is refused), $d and $-1,$d (lines below a partial range), k|s} over buffers of 1-9 lines, 15%% after an earlier global that inserted lines and was stopped by a failing command, 8%% after an earlier global whose command list left for another buffer; '
                    'the resulting text (which reveals the set, order and number of executions), the current line and the text after ONE undo are compared with the identity-based model / the text observed before the global.  '
                    'non-trivial = the global changed the buffer.' % n),
           'samples': [{'lines': ['a', 'x a', 'b'], 'command': 'g/a/s/$/!/|+1d'}]}
    assumptions = ['a global stops when the last command of an execution fails (neatvi; POSIX: on any error)', 'each execution of a/i/c reads its own text block from the input stream',
                   'replacements keep line identity position-wise (C06 model)']
    return cov, assumptions


def REPLAY(w):
    return run_case((build('asan'), w['index']))[:2]
