"""A small terminal emulator for the escape sequences neatvi emits (term.c):
CUP, CR, LF (scrolling inside DECSTBM), CUF/CUB, EL, IL/DL, DECSTBM, SGR; UTF-8 text with 2-cell
wide characters and combining marks attached to the previous cell."""
import re, unicodedata

_CSI = re.compile(rb'\x1b\[([0-9;]*)([A-Za-z])')


def cell_width(ch):
    if unicodedata.combining(ch) or unicodedata.category(ch) in ('Mn', 'Me', 'Cf'):
        return 0
    return 2 if unicodedata.east_asian_width(ch) in ('W', 'F') else 1


class Screen:
    def __init__(self, rows, cols):
        self.rows, self.cols = rows, cols
        self.g = [[' '] * cols for _ in range(rows)]
        self.r = self.c = 0
        self.top, self.bot = 0, rows - 1
        self.unknown = []

    def clone_rows(self):
        return [''.join(x for x in row if x != '') for row in self.g]

    def row_text(self, i):
        return ''.join(x for x in self.g[i] if x != '').rstrip(' ')

    def put(self, ch):
        w = cell_width(ch)
        if w == 0:
            c = self.c - 1
            while c > 0 and self.g[self.r][c] == '':
                c -= 1
            if c >= 0:
                self.g[self.r][c] += ch
            return
        if self.c + w > self.cols:      # neatvi never relies on autowrap; clip
            return
        self.g[self.r][self.c] = ch
        if w == 2:
            self.g[self.r][self.c + 1] = ''
        self.c += w

    def scroll_up(self, n=1):
        for _ in range(n):
            del self.g[self.top]
            self.g.insert(self.bot, [' '] * self.cols)

    def feed(self, data):
        i = 0
        n = len(data)
        while i < n:
            b = data[i]
            if b == 0x1b:
                m = _CSI.match(data, i)
                if not m:
                    self.unknown.append(data[i:i + 8])
                    i += 1
                    continue
                ps = [int(x) if x else 0 for x in m.group(1).split(b';')] if m.group(1) else []
                f = m.group(2)
                self.csi(ps, f)
                i = m.end()
            elif b == 0x0d:
                self.c = 0
                i += 1
            elif b == 0x0a:
                if self.r == self.bot:
                    self.scroll_up()
                elif self.r < self.rows - 1:
                    self.r += 1
                i += 1
            elif b == 0x08:
                self.c = max(0, self.c - 1)
                i += 1
            elif b < 0x20 or b == 0x7f:
                self.unknown.append(bytes([b]))
                i += 1
            else:
                # one UTF-8 character
                L = 1 if b < 0x80 else 2 if b < 0xe0 else 3 if b < 0xf0 else 4
                try:
                    ch = data[i:i + L].decode('utf-8')
                except UnicodeDecodeError:
                    ch = '�'
                    L = 1
                self.put(ch)
                i += L

    def csi(self, ps, f):
        p1 = ps[0] if ps else 0
        if f == b'H':
            r = (ps[0] if len(ps) > 0 and ps[0] else 1) - 1
            c = (ps[1] if len(ps) > 1 and ps[1] else 1) - 1
            self.r = max(0, min(self.rows - 1, r))
            self.c = max(0, min(self.cols - 1, c))
        elif f == b'C':
            self.c = min(self.cols - 1, self.c + max(1, p1))
        elif f == b'D':
            self.c = max(0, self.c - max(1, p1))
        elif f == b'K':
            for c in range(self.c, self.cols):
                self.g[self.r][c] = ' '
            # a wide character cut in half
            if self.c > 0 and self.g[self.r][self.c - 1] != '' and self.c < self.cols and False:
                pass
        elif f == b'L':
            if self.top <= self.r <= self.bot:
                for _ in range(min(max(1, p1), self.bot - self.r + 1)):
                    del self.g[self.bot]
                    self.g.insert(self.r, [' '] * self.cols)
        elif f == b'M':
            if self.top <= self.r <= self.bot:
                for _ in range(min(max(1, p1), self.bot - self.r + 1)):
                    del self.g[self.r]
                    self.g.insert(self.bot, [' '] * self.cols)
        elif f == b'r':
            if len(ps) >= 2 and ps[0] and ps[1]:
                self.top, self.bot = ps[0] - 1, min(self.rows - 1, ps[1] - 1)
            else:
                self.top, self.bot = 0, self.rows - 1
            self.r = self.c = 0
        elif f == b'm':
            pass
        else:
            self.unknown.append(b'CSI' + f)
