"""C04: undo and redo restore exact earlier texts, one step per command.

(1) probe: exhaustive operation sequences at the line-buffer interface against a snapshot-stack
    model (monitor inside the probe, ASan+UBSan);
(2) real binary (ex and vi): random histories; the buffer is dumped after every step and the
    snapshot stack is built from the OBSERVED texts, so no model of the commands is needed.
"""
import os, re
import common, gen
from common import pmap, rng, build, VERIF

PROBE = os.path.join(VERIF, 'probe', 'probe.c')

OPS = [(0, 0, 0, 'X\n'), (0, 1, 1, 'Y\nZ\n'), (0, 0, 1, None), (0, 0, 2, 'W\n'), (0, 1, 3, None), (0, 9, 9, 'E\n'), (1, 0, 0, None), (2, 0, 0, None), (3, 0, 0, None)]
INITS = ['', 'a\n', 'a\nb\n', 'a\nb\nc\n']


def run_enum(args):
    exe, init, depth, shard, nsh = args
    text = ''.join('uop %d %d %d %s\n' % (k, b, e, (t.encode().hex() if t else '~')) for k, b, e, t in OPS)
    text += 'undoenum %s %d %d %d\n' % (init.encode().hex() or '-', depth, shard, nsh)
    r = common.run([exe], text.encode(), env=common.base_env('/tmp'), timeout=3000)
    out = r.out.decode('latin-1')
    bad = []
    for l in out.split('\n'):
        if l.startswith('ANOM'):
            m = re.search(r'seq=([\d,]+) step=(\d+) ret=(\d+) expect_ret=(\d+) got=(\S+) want=(\S+)', l)
            seq = [int(x) for x in m.group(1).split(',')]
            names = ['%s' % (('edit[%d,%d)<-%r' % (OPS[i][1], OPS[i][2], OPS[i][3])) if OPS[i][0] == 0 else ['', 'newcmd', 'undo', 'redo'][OPS[i][0]]) for i in seq]
            last = OPS[seq[-1]][0]
            key = 'lbuf:' + {0: 'edit-text', 1: 'newcmd-text', 2: 'undo', 3: 'redo'}[last] + (':retval' if m.group(3) != m.group(4) else ':text')
            dec = lambda h: '' if h == '-' else bytes.fromhex(h).decode()
            bad.append((key, 'init %r ops %s: after the last op text is %r, snapshot model says %r (ret=%s expected %s)' % (
                init, ' ; '.join(names), dec(m.group(5)), dec(m.group(6)), m.group(3), m.group(4)), {'init': init, 'ops': names}))
    m = re.search(r'DONE nseq (\d+) nchk (\d+) nundo (\d+) nredo (\d+) nfail_at_ends (\d+) ntrunc (\d+) nbad (\d+)', out)
    st = dict(zip(('nseq', 'nchk', 'nundo', 'nredo', 'nfail_at_ends', 'ntrunc', 'nbad'), map(int, m.groups()))) if m else {}
    rep = common.san_report(r)
    if rep:
        bad.append((rep, 'sanitizer/crash in undoenum init=%r shard %d: %s' % (init, shard, r.err[-800:].decode('latin-1')), {'init': init}))
    elif not m:
        bad.append(('probe:truncated', 'undoenum gave no DONE line (rc=%s, timeout=%s)' % (r.rc, r.timed_out), {}))
    return st, bad


def check_history(init, steps, obs):
    """steps: list of (kind, label) kind in 'mod','undo','redo'; obs: texts after each step (None = missing)
    returns (violations, n_checked_undo_redo, cut_reason).

    A modifying command that leaves the text unchanged may or may not have created an undo entry:
    both hypotheses are carried along (a set of possible (stack, position) states) and a violation
    is reported only when an observation contradicts every hypothesis."""
    states = [((init,), 0)]
    bad = []
    nchk = 0
    for k, ((kind, label), t) in enumerate(zip(steps, obs)):
        if t is None:
            return bad, nchk, 'dump missing at step %d' % k
        if kind == 'seq':
            # one command line made of undos, redos and trivially modelled edits (x in front of the first line, y at the end of the
            # last): only the text after the whole line is seen, the steps in between follow from the snapshot stack
            nchk += 1
            new = []
            exps = []
            for stack, cur in states:
                for op in label.split('|'):
                    if op == 'u':
                        cur = cur - 1 if cur > 0 else cur
                    elif op == 'redo':
                        cur = cur + 1 if cur + 1 < len(stack) else cur
                    else:
                        base = stack[cur]
                        if not base or not base.endswith(b'\n'):
                            return bad, nchk, 'cut: trivially modelled edit on an empty text'
                        X = (b'x' + base) if op == '1s/^/x/' else (base[:-1] + b'y\n')
                        stack = stack[:cur + 1] + (X,)
                        cur += 1
                exps.append(stack[cur])
                if stack[cur] == t:
                    new.append((stack, cur))
            if not new:
                bad.append(('seq:text', 'command line %r (#%d): text is %r, expected %r' % (label, k, common.show(t, 200), common.show(exps[0], 200))))
                return bad, nchk, 'violation'
            states = new
        elif kind == 'mod':
            new = []
            for stack, cur in states:
                if t == stack[cur]:
                    new.append((stack, cur))                       # no entry was logged
                new.append((stack[:cur + 1] + (t,), cur + 1))      # one entry was logged
            states = new
        else:
            nchk += 1
            new = []
            exps = []
            for stack, cur in states:
                if kind == 'undo':
                    exp, ncur = (stack[cur - 1], cur - 1) if cur > 0 else (stack[cur], cur)
                else:
                    exp, ncur = (stack[cur + 1], cur + 1) if cur + 1 < len(stack) else (stack[cur], cur)
                exps.append((exp, cur, len(stack)))
                if exp == t:
                    new.append((stack, ncur))
            if not new:
                exp, cur, ln = exps[0]
                bad.append(('%s:text' % kind, '%s #%d from history position %d of %d: text is %r, expected %r' % (
                    kind, k, cur, ln - 1, common.show(t, 200), common.show(exp, 200))))
                return bad, nchk, 'violation'
            states = new
        if len(states) > 1:
            states = list(dict.fromkeys(states))
        if len(states) > 256:
            return bad, nchk, 'too many hypotheses at step %d' % k
    return bad, nchk, None


def ex_history(R):
    lines = gen.rand_buffer(R, 'mixed', 8, allow_empty=False)
    n = len(lines)
    steps = []
    script = b'w! dinit\n'
    pending = 0
    big = R.random() < 0.06
    if big:
        # one command that logs more splices than the undo log holds before it grows (128, 256, ...): undone and redone as a whole
        lines = ['l%d a' % i for i in range(R.choice([120, 129, 200, 260, 520]))]
        n = len(lines)
    aw = R.random() < 0.08
    if aw:
        script = b'se aw\n' + script       # autowrite: commands that leave the editor's hands (:!cmd) save the buffer first; the history stays
    for k in range(R.randint(5, 30)):
        x = R.random()
        if x < 0.55 or not steps:
            cmd = gen.ex_modify(R, max(n, 1), 'mixed')
            if aw and R.random() < 0.3:
                cmd = R.choice([b'!true\n', b'!true\n', b'!false\n', b'w\n'])
            if big:
                cmd = R.choice([b'%s/^/A/\n', b'g/./s/$/B/\n', b'1,140s/l/L/\n', b'%s/a/bb/\n', b'g/l/s/ / _/\n', b'2,$d\n', b'1,$!cat\n'])
            elif R.random() < 0.06:
                cmd = b'%dr f3\n' % R.randint(0, max(n, 1))      # (f3 has no newline at its end)
            elif R.random() < 0.06:
                cmd = R.choice([b'e!\n', b'e!\n', b'e\n'])      # re-reading the file is a change like any other: one step, history kept
            elif R.random() < 0.08:
                # one command line (or one global) that edits, writes lines somewhere else, and edits again: one command, one undo step
                one = [b'1s/^/x/', b'$s/$/y/', b'1d', b'%s/a/b/g', b'1y|$pu', b'$s/./&&/']
                wr = R.choice([b'1,1w! other', b'w! other', b'.w !cat', b'1w! other2', b'$w !tr a-z A-Z', b'wa', b'x other3' if False else b'1,$w! other'])
                cmd = R.choice([R.choice(one) + b'|' + wr + b'|' + R.choice(one), b'g/./s/$/!/|' + wr, b'g/a/s/a/b/|.w! other', b'v/zzz/.w !cat\n1s/^/k/'.split(b'\n')[0] + b'|s/^/k/']) + b'\n'
            if R.random() < 0.08:
                # undo / redo inside a command line that also edits (the steps of one line share a sequence number only while they edit)
                seq = R.choice(['1s/^/x/|u', 'redo|$s/$/y/', 'u|1s/^/x/', '$s/$/y/|u|redo', 'u|u', 'redo|redo', '1s/^/x/|u|$s/$/y/', 'redo|1s/^/x/|u', 'u|redo|$s/$/y/'])
                steps.append(('seq', seq))
                script += seq.encode() + b'\nw! d%d\n' % k
                continue
            if cmd.count(b'\n') == 1 and R.random() < 0.2:
                # a command line that edits and then fails: still one command, hence one undo step
                cmd = cmd[:-1] + R.choice([b'|99999p', b'|r /nonexistent/file', b'|nosuchcommand', b"|'zp", b'|/no such text anywhere/p']) + b'\n'
            steps.append(('mod', cmd.decode('utf-8', 'replace')))
            script += cmd
        elif x < 0.82:
            steps.append(('undo', 'u'))
            script += b'u\n'
        else:
            steps.append(('redo', 'redo'))
            script += b'redo\n'
        script += b'w! d%d\n' % k
    return lines, steps, script


def sparse_script(script, steps):
    """the same ex history with the dumps after modifying steps left out (a dump is itself a successful command line;
    undo grouping must not depend on one being there)"""
    for k, st in enumerate(steps):
        if st[0] == 'mod':
            script = script.replace(b'w! d%d\n' % k, b'', 1) if script.count(b'w! d%d\n' % k) == 1 else script
    return script


def vi_history(R):
    lines = gen.rand_buffer(R, 'ltr', 8, allow_empty=False)
    steps = []
    keys = R.choice([b'', b'', b':se ru=0\n', b':se ru=2\n', b':se ru=4\n', b':se noai\n']) + b':w! dinit\n'
    for k in range(R.randint(5, 30)):
        x = R.random()
        if x < 0.55 or not steps:
            while True:
                if R.random() < 0.3:
                    mk, _ = gen.vi_motion(R), None
                else:
                    mk = ''
                ek, cls = gen.vi_edit(R, 'ltr')
                if 'y' in ek.split('\x1b')[0][:4] or ek.startswith('Y'):
                    continue
                if cls == 'repeat':
                    ek = '.'    # 'N.' is N commands by design (see C09), hence N undo steps; keep one step per entry here
                break
            steps.append(('mod', repr(mk + ek), None if cls in ('ex', 'repeat') else ek.encode()))
            # register '.' afterwards (through a pipe that copies it to a file and back) tells whether the keys were taken as ONE command
            keys += (mk + ek).encode() + b'\x1b' + b':rx . tee dot%d\n' % k
        elif x < 0.82:
            steps.append(('undo', 'u'))
            keys += b'u'
        else:
            steps.append(('redo', '^R'))
            keys += b'\x12'
        keys += b':w! d%d\n' % k
    return lines, steps, keys


def run_history(args):
    vi, mode, idx = args
    R = rng('c04', mode, idx)
    if mode == 'ex':
        lines, steps, script = ex_history(R)
        r, d = common.run_ex(vi, script, files={'f1': gen.buf_bytes(lines, idx % 5 != 0), 'f2': b'r1\nr2\n', 'f3': b'n1\nn2 no newline'}, timeout=60)
    else:
        lines, steps, script = vi_history(R)
        r, d = common.run_vi(vi, script, files={'f1': gen.buf_bytes(lines), 'f2': b'r1\nr2\n'}, timeout=60)
    init = common.readf(d, 'dinit')
    obs = [common.readf(d, 'd%d' % k) for k in range(len(steps))]
    dots = [common.readf(d, 'dot%d' % k) for k in range(len(steps))]
    common.rmcase(d)
    if mode == 'vi':
        # a step whose keys were not taken as one command (a failed motion lets the rest of the keys run as commands of
        # their own, '"\\x' is a register prefix plus x, ...) may have logged several entries: the history is cut there
        pdot, ptext, spill = b'', init, None
        for k, st in enumerate(steps):
            if st[0] == 'mod' and st[2] is not None:
                if not (dots[k] == st[2] or (dots[k] == pdot and obs[k] == ptext)):
                    steps, obs, spill = steps[:k], obs[:k], k
                    break
            if dots[k] is not None:
                pdot = dots[k]
            ptext = obs[k]
    else:
        spill = None
    steps = [s[:2] for s in steps]
    wit = {'mode': mode, 'index': idx, 'file': gen.buf_bytes(lines), 'steps': steps, 'input': script}
    rep = common.san_report(r)
    if rep or r.timed_out:
        # memory errors and hangs are C05's business; here the history is simply inconclusive
        return ('inconclusive', rep or 'timeout', 0, 0, wit)
    if init is None:
        return ('inconclusive', 'no initial dump', 0, 0, wit)
    bad, nchk, cut = check_history(init, steps, obs)
    if bad:
        return ('violation', bad[0], nchk, len(steps), wit)
    if mode == 'ex' and all(o is not None for o in obs) and not script.startswith(b'se aw'):      # (with autowrite a :!cmd is refused or not depending on the second in which the previous autowrite happened: see DESIGN 7.2)
        # second run without the dumps after modifying steps: the texts after every undo/redo must be the same
        r2, d2 = common.run_ex(vi, sparse_script(script, steps), files={'f1': gen.buf_bytes(lines, idx % 5 != 0), 'f2': b'r1\nr2\n', 'f3': b'n1\nn2 no newline'}, timeout=60)
        obs2 = [common.readf(d2, 'd%d' % k) for k in range(len(steps))]
        common.rmcase(d2)
        if not (r2.timed_out or common.san_report(r2)):
            for k, st in enumerate(steps):
                if st[0] != 'mod' and obs2[k] is not None and obs2[k] != obs[k]:
                    return ('violation', ('%s:grouping' % st[0], '%s #%d gives %r when every step is followed by a (successful) dump command and %r when the modifying steps are not; steps so far %s' % (
                        st[0], k, common.show(obs[k], 120), common.show(obs2[k], 120), [s[1] for s in steps[:k + 1]][-6:])), nchk, len(steps), wit)
                if st[0] != 'mod':
                    nchk += 1
    return ('ok', cut or ('keys not taken as one command at step %d' % spill if spill is not None else None), nchk, len(steps), wit)


def two_buffer_history(args):
    """two buffers, command lines that edit and switch (`mod|e! other`, `e! other|mod`): every line that edits a buffer is ONE undo
    step of that buffer, whichever buffer is current when the line ends"""
    vi, idx = args
    R = rng('c04', 'twobuf', idx)
    texts = {'f1': ['one', 'two', 'three'], 'f2': ['uno', 'dos']}
    stack = {k: [list(v)] for k, v in texts.items()}
    pos = {'f1': 0, 'f2': 0}
    cur = 'f1'
    script = b''
    exp = []
    tagc = 0

    def mod(buf):
        nonlocal tagc
        tagc += 1
        t = list(stack[buf][pos[buf]])
        tag = chr(65 + tagc % 26) + chr(97 + (tagc // 26) % 26)
        if R.random() < 0.5:
            t[0] = tag + t[0]
            cmd = '1s/^/%s/' % tag
        else:
            t[-1] = t[-1] + tag
            cmd = '$s/$/%s/' % tag
        del stack[buf][pos[buf] + 1:]
        stack[buf].append(t)
        pos[buf] += 1
        return cmd

    other = lambda b: 'f2' if b == 'f1' else 'f1'
    for k in range(R.randint(4, 16)):
        x = R.random()
        if x < 0.25:
            line = mod(cur)
        elif x < 0.45:
            line = mod(cur) + '|e! ' + other(cur)
            cur = other(cur)
        elif x < 0.6:
            cur = other(cur)
            line = 'e! ' + cur + '|' + mod(cur)
        elif x < 0.8:
            line = 'u'
            if pos[cur] > 0:
                pos[cur] -= 1
        elif x < 0.9:
            line = 'redo'
            if pos[cur] + 1 < len(stack[cur]):
                pos[cur] += 1
        else:
            cur = other(cur)
            line = 'e! ' + cur
        # no dump after half of the editing lines: a dump is a command line of its own and would close an undo step left open
        dumped = line in ('u', 'redo') or R.random() < 0.5
        script += line.encode() + (b'\nw! d%d\n' % k if dumped else b'\n')
        exp.append((line, cur, ''.join(l + '\n' for l in stack[cur][pos[cur]]).encode() if dumped else None))
    r, d = common.run_ex(vi, script, files={'f1': b'one\ntwo\nthree\n', 'f2': b'uno\ndos\n'}, timeout=60)
    obs = [common.readf(d, 'd%d' % k) for k in range(len(exp))]
    common.rmcase(d)
    wit = {'index': idx, 'script': script}
    if r.timed_out or common.san_report(r) or any(o is None and e[2] is not None for o, e in zip(obs, exp)):
        return ('inconclusive', None, wit, 0)
    n = 0
    for k, ((line, cb, want), got) in enumerate(zip(exp, obs)):
        if want is None:
            continue
        if line in ('u', 'redo'):
            n += 1
        if got != want:
            return ('violation', ('%s:two-buffers' % ('undo' if line == 'u' else 'redo' if line == 'redo' else 'edit'),
                                  'lines %s: after line #%d %r buffer %s is %r, expected %r' % ([e[0] for e in exp[:k + 1]], k, line, cb, common.show(got, 80), common.show(want, 80))), wit, n)
    return ('ok', None, wit, n)


def seq_wrap_case(args):
    """two edits separated by exactly K commands that change nothing, for every K around 0, 128, 256 and 512 and every ruler
    setting: one undo takes back the second edit only (undo steps are told apart by a per-command sequence number)"""
    vi, mode, K, ru = args
    text = b'abcdefghijklmnopqrstuvwxyz\n' * 3
    if mode == 'ex':
        script = b'1s/^/A/\n' + b'2k a\n' * K + b'2s/^/B/\nu\nw! out\n'
        r, d = common.run_ex(vi, script, files={'f1': text}, timeout=60)
        want = b'A' + text
    else:
        pad = (b'lh' * (K // 2 + 1))[:K]
        script = (b':se ru=%d\n' % ru) + b'x' + pad + b'jx' + b'u:w! out\n'
        r, d = common.run_vi(vi, script, files={'f1': text}, timeout=60)
        want = text[1:]
    got = common.readf(d, 'out')
    common.rmcase(d)
    wit = {'mode': mode, 'K': K, 'ru': ru, 'script': script}
    if r.timed_out or common.san_report(r) or got is None:
        return ('inconclusive', None, wit)
    if got != want:
        return ('violation', ('undo:grouping', '%s mode%s: edit, %d commands that change nothing, edit, u: text is %r, expected %r (only the second edit undone)' % (
            mode, '' if mode == 'ex' else ' ru=%d' % ru, K, common.show(got, 60), common.show(want, 60))), wit)
    return ('ok', None, wit)


def run(tier, V):
    exe = build('asan', probe=PROBE)
    vi = build('asan')
    depth = 5 if tier == 'quick' else 7
    nsh = 4 if tier == 'quick' else 16
    jobs = [(exe, init, depth, s, nsh) for init in INITS for s in range(nsh)]
    if tier == 'quick':   # a seed-chosen slice of the next depth
        sl = common.seed() % 16
        jobs += [(exe, init, depth + 1, sl, 16) for init in INITS]
    res = pmap(run_enum, jobs)
    tot = {}
    for st, bad in res:
        for k, v in st.items():
            tot[k] = tot.get(k, 0) + v
        for key, what, wit in bad:
            V.violation(key, what, wit)
    nh = 250 if tier == 'quick' else 3000
    hres = pmap(run_history, [(vi, m, i) for m in ('ex', 'vi') for i in range(nh)])
    nchk = 0
    nfull = 0
    cuts = {}
    samples = []
    for status, info, n, ns, wit in hres:
        nchk += n
        if status == 'violation':
            key, what = info
            V.violation('binary:%s:%s' % (wit['mode'], key), '%s history #%d: %s; steps=%s' % (wit['mode'], wit['index'], what, [s[1] for s in wit['steps']][:40]), wit)
        elif status == 'inconclusive':
            V.inconclusive += 1
        else:
            if info is None:
                nfull += 1
            else:
                c = info.split(' at step')[0]
                cuts[c] = cuts.get(c, 0) + 1
            if n >= 3 and len(samples) < 3:
                samples.append({'mode': wit['mode'], 'steps': [s[1] for s in wit['steps']][:12]})
    ntb = 300 if tier == 'quick' else 5000
    tbchk = 0
    for status, info, wit, k in pmap(two_buffer_history, [(vi, common.seed() * 7368787 + i) for i in range(ntb)]):
        tbchk += k
        if status == 'violation':
            V.violation('binary:ex:' + info[0], 'two-buffer history #%d: %s' % (wit['index'], info[1]), wit)
        elif status == 'inconclusive':
            V.inconclusive += 1
    nchk += tbchk
    Ks = list(range(0, 4)) + list(range(120, 136)) + list(range(248, 262)) + list(range(504, 518)) + ([] if tier == 'quick' else list(range(760, 774)) + list(range(1016, 1030)))
    swjobs = [(vi, 'ex', K, 1) for K in Ks] + [(vi, 'vi', K, ru) for K in Ks for ru in (0, 1, 2, 4)]
    for status, info, wit in pmap(seq_wrap_case, swjobs):
        if status == 'violation':
            V.violation('binary:%s:%s' % (wit['mode'], info[0]), info[1], wit)
        elif status == 'inconclusive':
            V.inconclusive += 1
        else:
            nchk += 1
    cov = {'sequence_wrap_cases': len(swjobs), 'two_buffer_histories': ntb, 'two_buffer_undo_redo_checked': tbchk, 'probe': tot, 'probe_depth': depth, 'probe_ops': ['edit[%d,%d)<-%r' % (b, e, t) if k == 0 else ['', 'newcmd', 'undo', 'redo'][k] for k, b, e, t in OPS],
           'binary_histories': len(hres), 'binary_undo_redo_checked': nchk, 'binary_histories_fully_checked': nfull, 'binary_history_cuts': cuts,
           'evaluations': tot.get('nseq', 0) + len(hres), 'distinct_nontrivial': tot.get('nundo', 0) + tot.get('nredo', 0) + nchk, 'exhaustive': True,
           'rule': ('probe: ALL sequences of length %d over 9 operations (6 splices, new-command, undo, redo) on buffers of 0..3 lines, text compared with a snapshot-stack model after every op '
                    '(lbuf_edit/lbuf_undo/lbuf_redo/lbuf_modified), plus in quick a 1/16 slice of length %d; real binary: %d random ex and %d random vi histories of 5-30 steps mixing single edits, counted '
                    'commands, :g, :s, filters, multi-line inserts, J, puts, compound lines (also with writes to other files, and with undo / redo inside the line, followed step by step through the snapshot stack), histories under autowrite with :!cmd steps, u/redo/^R walks past both ends, dump after every step, stack built from observed texts; + two-buffer ex histories whose command lines edit and switch buffers (one undo step per line and buffer); + edit / K neutral commands / edit / u for every K around 0, 128, 256, 512 in ex and in vi with ru=0,1,2,4.  '
                    'non-trivial = an undo or redo whose resulting text was compared.' % (depth, depth + 1, nh, nh)),
           'samples': samples or [{'note': 'no history reached 3 checks'}]}
    assumptions = ['an undo step is the set of splices between two lbuf_modified() calls (what ex_command()/vi() do once per top-level command)',
                   'a command that leaves the text unchanged may or may not create an undo entry: both hypotheses are carried', 'vi histories: register "." is copied out after every change (:rx . tee file); where it does not hold exactly the keys of the step (failed motion, so the rest of the keys ran as other commands) the step may have logged several entries and the history is cut there (binary_history_cuts)',
                   ':w! dump of a named buffer to another path does not touch undo state']
    return cov, assumptions


def REPLAY(w):
    return run_history((build('asan'), w['mode'], w['index']))[:2] if 'mode' in w else 'probe witness: ops listed in the file'
