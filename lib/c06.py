"""C06: ex line commands change exactly the addressed lines (reference line editor).

Reference-model monitor on the real `vi -s -e` (ASan+UBSan).  After every command of a generated
script the printed output, the current line (.=) and a dump of the buffer are compared with
model_ex (lines carry identities, so untouched lines and marks are checked structurally).
"""
import common, gen
import model_ex as mx
from common import pmap, rng, build

S = lambda k: b'\x01\x02S%d\x03' % k

SHELL = {
    'sort': lambda ls: [x.decode('utf-8', 'surrogateescape') for x in sorted(l.encode('utf-8', 'surrogateescape') for l in ls)],
    'tr a-z A-Z': lambda ls: [''.join(c.upper() if 'a' <= c <= 'z' else c for c in l) for l in ls],
    'cat': lambda ls: list(ls),
    'sed 1d': lambda ls: list(ls[1:]),
    'sed p': lambda ls: [x for l in ls for x in (l, l)],
    'head -n 2': lambda ls: list(ls[:2]),
    'printf x': lambda ls: ['x'],       # output without a final newline (and a filter that does not read its input)
    'burst': lambda ls: list(ls),       # first line, a pause, then the rest: the output reaches the editor in several short reads
}
SIMPLE_PATS = ['a', 'o', 'foo', 'x', '^$', '^a', 'o$', 'b.r', 'zzzz', 'fo*', ' ', 'a/b', '/', 'o/']


def gen_addr(R, n, want_range, allow_zero, marks):
    def one():
        k = R.random()
        if k < 0.35:
            return str(R.randint(1, max(1, n)))
        if k < 0.45:
            return '.'
        if k < 0.55:
            return '$'
        if k < 0.62 and marks:
            return "'" + R.choice(marks)
        if k < 0.70:
            return R.choice(['/', '?']).join(['', R.choice(SIMPLE_PATS), '']) if False else (lambda d: d + R.choice(SIMPLE_PATS).replace(d, '\\' + d) + d)(R.choice('/?'))
        if k < 0.80:
            return R.choice(['.', '$', str(R.randint(1, max(1, n))), '']) + R.choice(['+1', '-1', '+2', '-2', '+0', '-1+2'])
        if k < 0.86:
            return R.choice(['0', str(n + 1), str(n + 3), '$+1', '.-9', "'z", '/qqqq/', '0+0']) if True else ''
        return str(R.randint(1, max(1, n)))
    if allow_zero and R.random() < 0.12:
        return '0'
    if not want_range or R.random() < 0.45:
        return one() if R.random() < 0.85 else ''
    a, b = one(), one()
    if R.random() < 0.08:
        # more than two addresses: the last two count (each ';' on the way still moves the current line)
        return one() + R.choice([',', ';']) + a + R.choice([',', ',', ';']) + b
    return a + R.choice([',', ',', ';']) + b


def gen_script(R, kind):
    lines = gen.rand_buffer(R, kind, 9)
    if R.random() < 0.1:
        lines = []
    elif lines and R.random() < 0.04:
        lines[R.randrange(len(lines))] = 'Long' * R.choice([1023, 1024, 1100, 2300])       # a line beyond the 4 KiB write batch: order and content of what :w writes
    elif lines and R.random() < 0.25:
        k = R.randrange(len(lines))
        lines[k] = lines[k] + R.choice([' a/b', '/', ' foo/bar'])
    cmds = []
    marks = []
    regs = []
    cmdreg = False
    n = len(lines)
    for _ in range(R.randint(3, 25)):
        k = R.random()
        text = None
        arg = ''
        if k < 0.14:
            c = 'a'
            loc = gen_addr(R, n, False, True, marks)
            text = [gen.rand_line(R, kind, 4) for _ in range(R.randint(0, 3))]
        elif k < 0.24:
            c = 'i'
            loc = gen_addr(R, n, False, True, marks)
            text = [gen.rand_line(R, kind, 4) for _ in range(R.randint(0, 3))]
        elif k < 0.34:
            c = 'c'
            loc = gen_addr(R, n, True, False, marks)
            text = [gen.rand_line(R, kind, 4) for _ in range(R.randint(0, 3))]
        elif k < 0.46:
            c = 'd'
            loc = gen_addr(R, n, True, False, marks)
            arg = R.choice(['', '', 'a', 'b', 'A'])
        elif k < 0.54:
            c = 'y'
            loc = gen_addr(R, n, True, False, marks)
            arg = R.choice(['', 'a', 'b', 'B'])
        elif k < 0.64:
            c = 'pu'
            loc = gen_addr(R, n, False, True, marks)
            arg = R.choice(['', '', 'a', 'b', 'z', '1', '2', '3', '3', '4', '9'])
        elif k < 0.69:
            c = 'r'
            loc = gen_addr(R, n, False, True, marks)
            arg = R.choice(['f2', 'f2', 'f3', 'f4', 'f4', 'nosuch'])      # (f4's last line has no terminator)
        elif k < 0.79:
            c = 'p'
            loc = gen_addr(R, n, True, False, marks)
        elif k < 0.84:
            c = '='
            loc = gen_addr(R, n, False, False, marks) or '.'
        elif k < 0.91:
            c = 'k'
            loc = gen_addr(R, n, False, False, marks)
            arg = R.choice('abcqzym')
            if arg not in marks:
                marks.append(arg)
        elif k < 0.96:
            c = '!'
            loc = gen_addr(R, n, True, False, marks) or '.'
            arg = R.choice([s for s in SHELL if s != 'burst'] * 3 + ['burst'])
        elif k < 0.975:
            c = 'rs'
            loc = ''
            arg = R.choice('ab')
            text = [gen.rand_line(R, kind, 4) for _ in range(R.randint(0, 2))]
        elif k < 0.988 or not cmdreg:
            c = 'rs'
            loc = ''
            arg = 'c'               # register c is reserved for command text
            text = [R.choice(['1p', '$d', '2d', '.=', '1,2y b', '$pu b', '1d a', '.p', '2,3p', '1ka']) for _ in range(R.randint(1, 3))]
            cmdreg = True
        else:
            c = R.choice(['@', 'ra'])
            loc = gen_addr(R, n, False, False, marks)
            arg = 'c'
        if text is not None:
            text = [t if t != '.' else '..' for t in text]
            n += len(text) if c != 'rs' else 0
        cmds.append({'loc': loc, 'cmd': c, 'arg': arg, 'text': text})
    return lines, cmds


def render(c):
    sep = ' ' if c['arg'] and c['cmd'] not in ('!',) else ''
    s = (c['loc'] + c['cmd'] + sep + c['arg'] + '\n').encode('utf-8')
    if c['text'] is not None:
        s += ''.join(t + '\n' for t in c['text']).encode('utf-8') + b'.\n'
    return s


def run_script(args):
    vi, idx = args
    R = rng('c06', idx)
    kind = R.choice(['ascii', 'ascii', 'mixed'])
    lines, cmds = gen_script(R, kind)
    files = {'f1': gen.buf_bytes(lines), 'f2': b'second file 1\nsecond 2\n', 'f3': b'', 'f4': b'n1\nn2 unterminated'}
    script = b''
    for k, c in enumerate(cmds):
        script += b'ec ' + S(4 * k) + b'\n' + render(c) + b'ec ' + S(4 * k + 1) + b'\n.=\nec ' + S(4 * k + 2) + b'\nw! d%d\n' % k
    r, d = common.run_ex(vi, script, files=files, timeout=60)
    dumps = [common.readf(d, 'd%d' % k) for k in range(len(cmds))]
    common.rmcase(d)
    wit = {'index': idx, 'lines': lines, 'commands': [render(c) for c in cmds]}
    rep = common.san_report(r)
    if rep:
        return [(rep, 'sanitizer/crash in script %s: %s' % (common.show(script, 300), r.err[-400:].decode('latin-1')), wit)], 0, 0, None
    if r.timed_out:
        return [], 0, 0, 'inconclusive'
    out = r.out

    def seg(a, b):
        if S(a) not in out or S(b) not in out:
            return None
        return out.split(S(a), 1)[1].split(S(b), 1)[0]

    M = mx.Ex(lines, icase=True, files={'f2': ['second file 1', 'second 2'], 'f3': [], 'f4': ['n1', 'n2 unterminated']}, shell=SHELL)
    nchk = 0
    nrej = 0
    for k, c in enumerate(cmds):
        before_ids = [(l.id, l.text) for l in M.lines]
        M.out = []
        rejected = False
        try:
            M.do(c['loc'], c['cmd'], c['arg'], c['text'])
        except mx.Reject:
            rejected = True
        except (mx.Unknown, mr_budget()):
            return [], nchk, nrej, 'cut'
        M.cur = max(0, min(M.cur, M.n() - 1))
        printed = seg(4 * k, 4 * k + 1)
        cur = seg(4 * k + 1, 4 * k + 2)
        text = dumps[k]
        if printed is None or cur is None or text is None:
            return [], nchk, nrej, 'cut'
        nchk += 1
        desc = 'command #%d %s on %r' % (k, common.show(render(c), 80), [t for _, t in before_ids][:12])
        want_text = gen.buf_bytes(M.texts())
        if text != want_text:
            key = 'rejected-command-changed-buffer' if rejected else 'text:%s' % c['cmd']
            return [(key, '%s: buffer is %r, reference %r%s' % (desc, common.show(text, 200), common.show(want_text, 200), ' (the address does not resolve: must be rejected)' if rejected else ''), wit)], nchk, nrej, None
        if c['cmd'] in ('p', '=', '@', 'ra'):
            want_out = b''.join(M.out)
            if printed != want_out:
                return [('print:%s' % c['cmd'], '%s: printed %r, reference %r' % (desc, common.show(printed, 120), common.show(want_out, 120)), wit)], nchk, nrej, None
        want_cur = (b'%d\n' % (M.cur + 1)) if M.n() else b''
        if cur != want_cur:
            return [('curline:%s%s' % (c['cmd'], ':rejected' if rejected else ''), '%s: current line is %r, reference %r' % (desc, cur, want_cur), wit)], nchk, nrej, None
        if rejected:
            nrej += 1
    return [], nchk, nrej, None


def mr_budget():
    import model_regex
    return model_regex.Budget


def run(tier, V):
    vi = build('asan')
    n = 5000 if tier == 'quick' else 60000
    base = common.seed() * 49979687
    res = pmap(run_script, [(vi, base + i) for i in range(n)], procs=True)
    nchk = sum(r[1] for r in res)
    nrej = sum(r[2] for r in res)
    cuts = 0
    for bad, _, _, st in res:
        if st == 'inconclusive':
            V.inconclusive += 1
        elif st == 'cut':
            cuts += 1
        for key, what, wit in bad:
            V.violation(key, what, wit)
    R = rng('c06', base)
    l0, c0 = gen_script(R, 'ascii')
    cov = {'evaluations': nchk, 'distinct_nontrivial': nchk - 0, 'scripts': n, 'commands_checked': nchk, 'rejections_checked': nrej, 'scripts_cut_by_model': cuts,
           'rule': ('%d scripts of 3-25 commands over a i c d y pu r p = k !filter rs with addresses from numbers, ., $, marks, /re/, ?re?, +-offsets, comma and semicolon (also lists of three addresses), 0, $+1, unset marks, failing searches; :r of a file and filters whose output lack the final newline; '
                    'buffers empty / one line / many, ASCII and multi-byte.  after EVERY command: printed output, .= and a dump of the buffer are compared with the reference line editor.  '
                    'non-trivial = a command whose three observations were compared (rejections counted separately).' % n),
           'samples': [{'lines': l0[:5], 'commands': [render(c).decode('utf-8', 'replace') for c in c0[:6]]}]}
    assumptions = ['reference semantics = POSIX ex restricted to the listed commands; where POSIX and neatvi differ on unspecified points (empty input line is a no-op, searches in addresses do not wrap, filter output replaces the range position-wise) neatvi is followed',
                   'a/i/r/pu/k/= are generated with a single address; marks on lines that were themselves changed are not predicted (script cut there)',
                   'error message wording is not compared; rejection is judged by effect']
    return cov, assumptions


def REPLAY(w):
    return run_script((build('asan'), w['index']))[0]
