"""C20: each open buffer keeps its own text, position and dirty state across switches.

History monitor on the real binary (ex mode): after every operation the buffer list, the current
line and a dump of the current buffer are observed.  A small model (MRU list with ids; per buffer
the last observed text / line / star and a snapshot stack for undo) predicts what must be seen:
the buffer reached is the one named, a buffer is found on return exactly as it was left, other
buffers' flags never change, open paths are not re-read, quit refuses while any is dirty.
"""
import re
import common
from common import pmap, rng, build

S = lambda k: b'\x01\x02S%d\x03' % k


def parse_blist(b):
    # entries are printed back to back as "%2i %c %s %c"; paths used by the workloads are f<N>
    b = re.sub(rb'\x1b\[[0-9;]*[A-Za-z]|\r', b'', b)
    return [(int(m.group(1)), m.group(2).decode(), m.group(3).decode(), m.group(4) == b'*')
            for m in re.finditer(rb'(\d+) ([%#^ ]) (f\d+) ([* ])', b)]


class Buf:
    def __init__(self, path, bid, text):
        self.path, self.id, self.text = path, bid, text
        self.line = 1
        self.saved = text
        self.snaps = [text]
        self.pos = 0
        self.touched = False    # its file was changed on disk behind the editor (a later :w may legitimately be refused)
        self.flag = False       # the flag last observed in the buffer list (used for refusal decisions)

    @property
    def star(self):
        return self.text != self.saved


def gen_history(R, nfiles, n, R2=None):
    ops = []
    letters = iter('ABCDEFGHIJKLMNOPQRSTUVWXYZabcdefghijklmnopqrstuvwxyz0123456789' * 4)
    for _ in range(n):
        k = R.random()
        if k < 0.22:
            ops.append(('edit', b'1s/^/%c/' % ord(next(letters))))
        elif k < 0.30:
            ops.append(('edit', b'$a\nappended %c\n.' % ord(next(letters))))
        elif k < 0.38:
            ops.append(('undo', b'u'))
        elif k < 0.43:
            ops.append(('redo', b'redo'))
        elif k < 0.52:
            ops.append(('write', b'w'))
        elif k < 0.66:
            ops.append(('e', b'e f%d' % R.randint(1, nfiles)))
        elif k < 0.74:
            ops.append(('e!', b'e! f%d' % R.randint(1, nfiles)))
        elif k < 0.79:
            ops.append(('e#', b'e #'))
        elif k < 0.86:
            ops.append(('bN', b'b %d' % R.randint(1, nfiles + 1)))
        elif k < 0.90:
            ops.append(('b+', R.choice([b'b +', b'b -'])))
        elif k < 0.93:
            ops.append(('balias', R.choice([b'b %', b'b #', b'b ^'])))
        elif k < 0.95:
            ops.append(('bdel', b'b !'))
        elif k < 0.97:
            ops.append(('bnum', b'b ~'))
        elif k < 0.975:
            ops.append(('ta', b'ta t%d' % R.randint(1, nfiles)))      # tag tN: line 2 of fN (jumps between buffers, remembering where it came from)
        elif k < 0.985:
            ops.append(('po', b'po'))
        elif k < 0.99:
            ops.append(('disk', None))      # filled in at run time: change an open, non-current file on disk
        else:
            ops.append(('move', R.choice([b'2', b'1', b'$'])))
    if R2 is not None:
        # quits that should be refused (they jump to the first modified buffer of the table), each preceded by a forced switch
        # away from a buffer that may be modified and a line move in the buffer reached
        for _ in range(R2.randint(1, 3)):
            at = R2.randint(1, len(ops))
            ops[at:at] = [('e!', b'e! f%d' % R2.randint(1, nfiles)), ('move', R2.choice([b'2', b'$', b'3'])), ('q', b'q')]
    return ops


def run_history(args):
    vi, idx = args
    R = rng('c20', idx)
    nfiles = R.choice([2, 3, 5, 8, 16])
    files = {('f%d' % i): b''.join(b'f%d line %d\n' % (i, j) for j in range(1, R.randint(2, 5) + 1)) for i in range(1, nfiles + 1)}
    files['alt'] = b'REPLACED ON DISK\n'
    files['tags'] = b''.join(b't%d\tf%d\t2\n' % (i, i) for i in range(1, nfiles + 1))
    ops = gen_history(R, nfiles, R.randint(10, 50), rng('c20q', idx) if idx % 2 else None)
    if nfiles == 16 and R.random() < 0.8:
        # fill the whole table first (edits and line moves in some buffers), then wander: returning to the
        # least recently used slots is where a table of exactly 16 entries is most fragile
        pro = []
        order = list(range(2, 17))
        R.shuffle(order)
        letters = iter('zyxwvutsrqponmlkjihgfedcba')
        for i in order:
            pro.append(('e!', b'e! f%d' % i))
            if R.random() < 0.4:
                pro.append(('edit', b'1s/^/%c%c/' % (ord(next(letters)), 48 + i % 10)))
            if R.random() < 0.4:
                pro.append(('move', b'2'))
        back = list(range(1, 17))
        R.shuffle(back)
        for i in back[:R.randint(3, 16)]:
            pro.append(('e!', b'e! f%d' % i))
        ops = pro + ops
    # build the script; 'disk' ops need to name a target: resolved statically as f1..f3 (whitelist) and validated by the model
    script = b'ec ' + S(0) + b'\nb\nec ' + S(1) + b'\n.=\nec ' + S(2) + b'\nw! d0\n'
    concrete = []
    for k, (kind, cmd) in enumerate(ops, 1):
        if kind == 'disk':
            j = R.randint(1, min(3, nfiles))
            cmd = b'!repl f%d' % j      # replaced on disk with a visibly newer time (mtimes have one-second resolution)
        concrete.append((kind, cmd))
        script += cmd + b'\nec ' + S(3 * k) + b'\nb\nec ' + S(3 * k + 1) + b'\n.=\nec ' + S(3 * k + 2) + b'\nw! d%d\n' % k
    K = len(concrete)
    script += b'q\nec ' + S(3 * K + 3) + b'\nb\nec ' + S(3 * K + 4) + b'\n'
    r, d = common.run_ex(vi, script, files=dict(files), timeout=60)
    dumps = [common.readf(d, 'd%d' % k) for k in range(K + 1)]
    common.rmcase(d)
    out = re.sub(rb'\x1b\[[0-9;]*[A-Za-z]|\r', b'', r.out)      # :!cmd makes the editor emit terminal sequences around the command
    wit = {'index': idx, 'nfiles': nfiles, 'ops': [c for _, c in concrete]}
    if r.timed_out or common.san_report(r):
        return [], 0, 0, 'inconclusive'

    def seg(a, b):
        if S(a) not in out or S(b) not in out:
            return None
        return out.split(S(a), 1)[1].split(S(b), 1)[0]

    def observe(k):
        l = seg(3 * k, 3 * k + 1)
        ln = seg(3 * k + 1, 3 * k + 2)
        if l is None or ln is None:
            return None
        m = re.search(rb'(\d+)', ln)
        return parse_blist(l), (int(m.group(1)) if m else None), dumps[k]

    disk = dict(files)
    o = observe(0)
    if o is None:
        return [], 0, 0, 'inconclusive'
    lst, line, text = o
    bufs = [Buf('f1', 1, disk['f1'])]      # MRU order
    tagstack = []
    nextid = 2
    bad = []
    nsw = 0
    nchk = 0

    def fail(key, what, k):
        bad.append((key, 'op #%d %r: %s (ops so far: %s)' % (k, concrete[k - 1][1] if k else None, what, [c.decode() if c else None for _, c in concrete[:k]][-12:]), wit))

    for k, (kind, cmd) in enumerate(concrete, 1):
        cur = bufs[0]
        switched = False
        jumpline = None
        if kind in ('ta', 'po'):
            if kind == 'ta':
                if len(tagstack) >= 30:
                    return bad, nsw, nchk, 'cut: tag stack full'
                tagstack.append((cur.path, cur.line))
                target, jumpline = cmd.split()[-1].decode().replace('t', 'f'), 2
            elif tagstack:
                target, jumpline = tagstack.pop()
            else:
                target = cur.path       # "not found": nothing moves
            if target != cur.path:
                if cur.flag:
                    return bad, nsw, nchk, 'cut: tag jump out of a modified buffer'
                ex = [b for b in bufs if b.path == target]
                if ex:
                    bufs.remove(ex[0])
                    bufs.insert(0, ex[0])
                elif len(bufs) >= 16:
                    return bad, nsw, nchk, 'cut: tag jump with a full table'
                else:
                    bufs.insert(0, Buf(target, nextid, disk[target]))
                    nextid += 1
                switched = True
        if kind in ('edit',):
            expected_change = True
        if kind == 'undo':
            if cur.pos > 0:
                cur.pos -= 1
        elif kind == 'redo':
            if cur.pos + 1 < len(cur.snaps):
                cur.pos += 1
        elif kind in ('e', 'e!', 'e#', 'bN', 'b+', 'balias'):
            target = None
            refused = False
            if kind in ('e', 'e!'):
                tp = cmd.split()[-1].decode()
                if kind == 'e' and cur.flag:
                    refused = True
                else:
                    target = tp
            elif kind == 'e#':
                if cur.flag:
                    refused = True
                elif len(bufs) > 1:
                    target = bufs[1].path
                else:
                    refused = True
            else:
                if kind == 'bN':
                    n = int(cmd.split()[-1])
                    cand = [b for b in bufs if b.id == n]
                elif kind == 'b+':
                    if cmd.endswith(b'+'):
                        hi = [b for b in bufs if b.id > cur.id]
                        cand = [min(hi, key=lambda b: b.id)] if hi else []
                    else:
                        lo = [b for b in bufs if b.id < cur.id]
                        cand = [max(lo, key=lambda b: b.id)] if lo else []
                else:
                    i = b'%#^'.index(cmd[-1:])
                    cand = [bufs[i]] if i < len(bufs) else []
                if not cand or cur.flag:
                    refused = True
                else:
                    target = cand[0].path
            if not refused and target is not None:
                ex = [b for b in bufs if b.path == target]
                if ex:
                    b = ex[0]
                    bufs.remove(b)
                    bufs.insert(0, b)
                else:
                    if len(bufs) >= 16:
                        refused = True      # eviction rules are C02's business
                    else:
                        b = Buf(target, nextid, disk[target])
                        nextid += 1
                        bufs.insert(0, b)
                switched = not refused
        elif kind == 'q':
            dirty = [b for b in bufs if b.flag]
            if not dirty:
                return bad, nsw, nchk, 'cut: quit with nothing modified'
            if observe(k) is None:
                fail('quit-with-dirty-buffer', ':q in mid-history exited although %s are modified' % [b.path for b in dirty], k)
                return bad, nsw, nchk, None
            if dirty[0] is not bufs[0]:
                bufs.remove(dirty[0])
                bufs.insert(0, dirty[0])
                switched = True
        elif kind == 'bdel':
            if len(bufs) > 1:
                bufs.pop(0)
                switched = True
            else:
                return bad, nsw, nchk, 'cut: deleted the only buffer'
        elif kind == 'bnum':
            for i, b in enumerate(bufs, 1):
                b.id = i
            nextid = len(bufs) + 1
        elif kind == 'disk':
            tp = cmd.split()[-1].decode()
            if not cur.flag:
                disk[tp] = files['alt']
                for b in bufs:
                    if b.path == tp:
                        b.touched = True      # its star is no longer predictable from texts... (flag is sequence based)
        o = observe(k)
        if o is None:
            return bad, nsw, nchk, 'cut: no observation at step %d' % k
        lst, line, text = o
        cur = bufs[0]
        # 1. the list: order, ids, paths
        got = [(i, p) for i, _, p, _ in lst]
        want = [(b.id, b.path) for b in bufs]
        nchk += 1
        if got != want:
            fail('buffer-reached' if switched or kind in ('e', 'e!', 'e#', 'bN', 'b+', 'balias') else 'buffer-table', 'buffer list is %s, expected %s' % (got, want), k)
            return bad, nsw, nchk, None
        # 2. the current buffer's text and line
        if switched:
            nsw += 1
            if text != cur.text:
                key = 'reread-open-path' if text == disk.get(cur.path) and cur.text != disk.get(cur.path) else 'text-changed-across-switch'
                fail(key, 'buffer %s shows %r, it was left as %r' % (cur.path, common.show(text or b'', 80), common.show(cur.text, 80)), k)
                return bad, nsw, nchk, None
            if jumpline is not None:
                # a tag jump / pop sets the line itself; the buffer reached is otherwise as it was left
                if jumpline <= (text or b'').count(b'\n') and line != jumpline:
                    fail('tag-line', 'buffer %s: %s lands on line %s, expected %s' % (cur.path, cmd.decode(), line, jumpline), k)
                    return bad, nsw, nchk, None
                cur.line = line
            if line != cur.line:
                fail('line-changed-across-switch', 'buffer %s: current line %s, it was left at %s' % (cur.path, line, cur.line), k)
                return bad, nsw, nchk, None
        else:
            if kind == 'edit':
                if text == cur.text:
                    return bad, nsw, nchk, 'cut: edit did not change the text'
                cur.snaps = cur.snaps[:cur.pos + 1] + [text]
                cur.pos += 1
            elif kind in ('undo', 'redo'):
                if text != cur.snaps[cur.pos]:
                    fail('undo-history-across-switch', 'buffer %s after %s: text %r, its own history says %r' % (cur.path, kind, common.show(text or b'', 80), common.show(cur.snaps[cur.pos], 80)), k)
                    return bad, nsw, nchk, None
            elif jumpline is not None and text == cur.text and jumpline <= (text or b'').count(b'\n') and line != jumpline:
                fail('tag-line', 'buffer %s: %s lands on line %s, expected %s' % (cur.path, cmd.decode(), line, jumpline), k)
                return bad, nsw, nchk, None
            elif text != cur.text:
                fail('text-changed-by-non-edit', 'buffer %s: %r changed the text' % (cur.path, cmd), k)
                return bad, nsw, nchk, None
            cur.text = text
            cur.line = line
            if kind == 'write':
                st0 = [st for (i, a, p, st) in lst if p == cur.path][0]
                if cur.touched:
                    pass                    # refused: the file is newer than what the editor read ("file changed"), whatever the buffer's state
                else:
                    cur.saved = text
                    disk[cur.path] = text
                    cur.touched = False
        # 3. flags of all buffers
        for (i, a, p, st), b in zip(lst, bufs):
            b.flag = st
            if b.saved == b'\x00no-longer-known':
                continue
            if st != b.star:
                fail('dirty-flag', 'buffer %s is listed %s, expected %s' % (p, 'modified' if st else 'clean', 'modified' if b.star else 'clean'), k)
                return bad, nsw, nchk, None
    # final quit attempt
    anydirty = [b.path for b in bufs if b.flag]
    alive = S(3 * K + 3) in out
    if anydirty and not alive:
        fail('quit-with-dirty-buffer', ':q exited although %s are modified' % anydirty, K)
    elif anydirty:
        l2 = parse_blist(seg(3 * K + 3, 3 * K + 4) or b'')
        cur = [p for _, a, p, _ in l2 if a == '%']
        if cur and cur[0] not in anydirty:
            fail('quit-not-on-dirty-buffer', 'after the refused :q the current buffer is %s, modified: %s' % (cur[0], anydirty), K)
    elif alive:
        fail('quit-refused-when-clean', ':q refused although no buffer is modified', K)
    return bad, nsw, nchk, None


def aw_scenario(args):
    """autowrite: several buffers are left modified (with e!), then :se aw and :q / :x / :wq: every buffer is written to ITS OWN file with ITS OWN text"""
    vi, idx = args
    R = rng('c20', 'aw', idx)
    nf = R.choice([2, 3, 5, 16])
    files = {('f%d' % i): b'f%d line 1\nf%d line 2\n' % (i, i) for i in range(1, nf + 1)}
    want = dict(files)
    order = list(range(2, nf + 1))
    R.shuffle(order)
    script = b''
    for i in [1] + order:
        if i != 1:
            script += b'e! f%d\n' % i
        if R.random() < 0.7:
            tag = b'%c%d' % (65 + i % 26, i)
            script += b'1s/^/%s /\n' % tag
            want['f%d' % i] = tag + b' ' + files['f%d' % i]
    cmd = R.choice([b'q', b'q', b'x', b'wq'])
    script += b'se aw\n' + cmd + b'\nec ' + S(1) + b'\n'
    r, d = common.run_ex(vi, script, files=dict(files), timeout=60)
    got = {k: common.readf(d, k) for k in files}
    common.rmcase(d)
    wit = {'index': idx, 'script': script}
    if r.timed_out or common.san_report(r):
        return ('inconclusive', None, wit)
    if S(1) in r.out:
        return ('aw:quit-refused', 'autowrite on, %d buffers: :%s did not leave the editor' % (nf, cmd.decode()), wit)
    for k in sorted(files):
        if got[k] != want[k]:
            return ('aw:wrong-text-written', 'autowrite on, %d buffers, :%s: file %s holds %r, its buffer held %r' % (nf, cmd.decode(), k, common.show(got[k] or b'', 60), common.show(want[k], 60)), wit)
    return ('ok', None, wit)


def split_scenario(args):
    """vi, two windows (^Ws) on two different buffers: each window keeps its own cursor line while the other one is used"""
    vi, idx = args
    R = rng('c20', 'split', idx)
    nl = R.randint(6, 30)
    A = [b'a%d' % i for i in range(1, nl + 1)]
    B = [b'b%d' % i for i in range(1, nl + 1)]
    n1, n2 = R.randint(1, nl), R.randint(1, nl)
    keys = b'%dG\x17s:e fb\n%dG' % (n1, n2)
    win = [{'buf': 'b', 'row': n2}, {'buf': 'a', 'row': n1}]
    act = 0
    marks = {'a': {}, 'b': {}}
    mc = iter('ABCDEFGHIJKLMNOPQRSTUVWXYZ0123456789' * 3)
    split = True
    for _ in range(R.randint(3, 14)):
        x = R.random()
        if x < 0.06 and split:
            # ^Wo keeps the active window, ^Wc closes it (the other one stays): either way one window, showing ITS buffer at ITS line
            if R.random() < 0.5:
                keys += b'\x17o'
            else:
                keys += b'\x17c'
                act = 1 - act
            split = False
        elif x < 0.35:
            keys += R.choice([b'\x17j', b'\x17k'])
            if split:
                act = 1 - act
        elif x < 0.7:
            k = R.randint(1, nl)
            keys += b'%dG' % k
            win[act]['row'] = k
        else:
            c = next(mc)
            keys += b'0r' + c.encode()
            marks[win[act]['buf']][win[act]['row']] = c
    keys += b':w\n\x17j:w\n'
    r, d = common.run_vi(vi, keys, files={'fa': b'\n'.join(A) + b'\n', 'fb': b'\n'.join(B) + b'\n'}, args=['fa'], timeout=60)
    got = {'a': common.readf(d, 'fa'), 'b': common.readf(d, 'fb')}
    common.rmcase(d)
    wit = {'index': idx, 'keys': keys}
    if r.timed_out or common.san_report(r) or got['a'] is None or got['b'] is None:
        return ('inconclusive', None, wit)
    for name, src in (('a', A), ('b', B)):
        exp = list(src)
        for row, c in marks[name].items():
            if split or win[act]['buf'] == name:        # (with one window left only its buffer is written)
                exp[row - 1] = c.encode() + exp[row - 1][1:]
        if got[name] != b'\n'.join(exp) + b'\n':
            gl = got[name].split(b'\n')
            diff = [i + 1 for i in range(min(len(gl), len(exp))) if gl[i] != exp[i]]
            return ('split:line-changed-across-switch', 'two windows on two buffers, keys %s: buffer f%s was edited on line(s) %s, expected marks on %s' % (
                common.show(keys, 120), name, diff[:6], sorted(marks[name])), wit)
    return ('ok' if marks['a'] or marks['b'] else 'ok-trivial', None, wit)


def table_full_scenario(args):
    """all 16 slots in use, the least recently used buffer holds unsaved text; opening one more file, or quitting with the
    writeany option set, must not make that text disappear"""
    vi, idx = args
    R = rng('c20', 'full', idx)
    files = {('f%d' % i): b'file %d\nline 2\n' % i for i in range(1, 18)}
    order = list(range(2, 17))
    R.shuffle(order)
    script = b'1s/^/KEEP /\n' + b''.join(b'e! f%d\n' % i for i in order)
    kind = R.choice(['e17', 'e17', 'wa-q', 'wa-x', 'wa-e17'])
    if kind.startswith('wa'):
        script += b'se wa\n'
    cmd = {'e17': b'e f17', 'wa-q': b'q', 'wa-x': b'x', 'wa-e17': b'e f17'}[kind]
    script += cmd + b'\nec ' + S(1) + b'\ne! f1\nec ' + S(2) + b'\n1,$p\nec ' + S(3) + b'\n'
    r, d = common.run_ex(vi, script, files=files, timeout=60)
    common.rmcase(d)
    wit = {'index': idx, 'script': script}
    if r.timed_out or common.san_report(r):
        return ('inconclusive', None, wit)
    if S(1) not in r.out:
        return ('full:quit-with-dirty-buffer', '16 buffers, f1 modified and least recently used, %s:%s left the editor' % ('writeany set, ' if kind.startswith('wa') else '', cmd.decode()), wit)
    if S(2) in r.out and S(3) in r.out:
        got = r.out.split(S(2), 1)[1].split(S(3), 1)[0]
        if got != b'KEEP ' + files['f1']:
            return ('full:text-lost', '16 buffers, f1 modified and least recently used, %s:%s: afterwards buffer f1 shows %r' % ('writeany set, ' if kind.startswith('wa') else '', cmd.decode(), common.show(got, 60)), wit)
    return ('ok', None, wit)


def evict_scenario(args):
    """all 16 slots in use and clean, each buffer left on a line of its own; further files take the least recently used slots:
    a newly read file starts on its first line with its own text, whoever had the slot before, and so does an evicted file read again"""
    vi, idx = args
    R = rng('c20', 'evict', idx)
    files = {('f%d' % i): b''.join(b'f%d line %d\n' % (i, j) for j in range(1, 8)) for i in range(1, 21)}
    order = list(range(2, 17))
    R.shuffle(order)
    script = b'%d\n' % R.randint(2, 7) + b''.join(b'e f%d\n%d\n' % (i, R.randint(2, 7)) for i in order)
    newf = R.sample(range(17, 21), R.randint(1, 4)) + [1]          # (f1 was the least recently used: evicted first, read again last)
    for k, i in enumerate(newf):
        script += b'e f%d\nec ' % i + S(10 + k) + b'\n.=\np\nec ' + S(30 + k) + b'\n'
    r, d = common.run_ex(vi, script, files=files, timeout=60)
    common.rmcase(d)
    wit = {'index': idx, 'script': script}
    if r.timed_out or common.san_report(r):
        return ('inconclusive', None, wit)
    for k, i in enumerate(newf):
        if S(10 + k) not in r.out or S(30 + k) not in r.out:
            return ('inconclusive', None, wit)
        got = r.out.split(S(10 + k), 1)[1].split(S(30 + k), 1)[0]
        if got != b'1\nf%d line 1\n' % i:
            return ('evict:new-buffer-position', '16 buffers open, then f%d is read into a reused slot: current line and its text are %r, expected line 1' % (i, common.show(got, 60)), wit)
    return ('ok', None, wit)


def arglist_scenario(args):
    """several files on the command line, :n / :prev mixed with edits, writes and switches by name: the buffer
    reached is the next / previous argument counted from the last one REACHED through the list; a refused :n moves nothing"""
    vi, idx = args
    R = rng('c20', 'arglist', idx)
    names = ['fa', 'fb', 'fc', 'fd'][:R.choice([2, 3, 4, 4])]
    files = {n: b'%s line 1\n%s line 2\n' % (n.encode(), n.encode()) for n in names}
    pos, cur = 0, names[0]
    dirty = {n: False for n in names}
    script = b''
    exp = []
    ops = []
    for k in range(R.randint(6, 20)):
        x = R.random()
        if x < 0.3:
            op = R.choice(['n', 'n', 'prev', 'prev'])      # (neatvi has no n! / prev!)
            tgt = pos + (1 if op[0] == 'n' else -1)
            if 0 <= tgt < len(names) and not dirty[cur]:
                pos, cur = tgt, names[tgt]
        elif x < 0.55:
            op = R.choice(['1s/^/X/', '2s/$/Y/'])
            dirty[cur] = True
        elif x < 0.7:
            op = 'w'
            dirty[cur] = False
        else:
            t = R.choice([n for n in names if n != cur])
            bang = R.random() < 0.4
            op = 'e%s %s' % ('!' if bang else '', t)
            if bang or not dirty[cur]:
                cur = t
        ops.append(op)
        script += op.encode() + b'\nec ' + S(10 + k) + b'\n1p\nec ' + S(40 + k) + b'\n'
        exp.append(cur)
    r, d = common.run_ex(vi, script, files=files, timeout=60, args=names)
    common.rmcase(d)
    wit = {'index': idx, 'args': names, 'ops': ops}
    if r.timed_out or common.san_report(r):
        return ('inconclusive', None, wit)
    for k, want in enumerate(exp):
        if S(10 + k) not in r.out or S(40 + k) not in r.out:
            return ('inconclusive', None, wit)
        got = r.out.split(S(10 + k), 1)[1].split(S(40 + k), 1)[0]
        m = re.search(rb'(f[a-d]) line 1', got)
        if not m or m.group(1).decode() != want:
            return ('arglist:buffer-reached', 'files %s, after %s the current buffer shows %r, expected the buffer of %s' % (names, ops[:k + 1], common.show(got, 40), want), wit)
    return ('ok', None, wit)


def unnamed_alt_scenario(args):
    """the buffer without a file name is one of the two most recent buffers: `#` / `%` reach it like any other buffer"""
    vi, idx = args
    R = rng('c20', 'unalt', idx)
    utext = b'scratch %d\n' % idx
    f1 = b'f1 one\nf1 two\n'
    hops = R.randint(1, 5)
    script = b'a\n' + utext + b'.\n' + b'e! f1\n1s/^/X/\n'
    cur = 'f1'
    exp = []
    for h in range(hops):
        script += R.choice([b'e! #\n', b'e! #\n', b'e #\n']) if True else b''
        last = script.rsplit(b'\n', 2)[-2]
        if last == b'e #':
            pass                    # refused: both buffers are modified; nothing changes
        else:
            cur = 'un' if cur == 'f1' else 'f1'
        script += b'ec ' + S(10 + h) + b'\n1,$p\nec ' + S(50 + h) + b'\n'
        exp.append(utext if cur == 'un' else b'X' + f1)
    r, d = common.run_ex(vi, script, files={'f1': f1}, timeout=30, args=[])
    common.rmcase(d)
    wit = {'index': idx, 'script': script}
    if r.timed_out or common.san_report(r):
        return ('inconclusive', None, wit)
    for h, want in enumerate(exp):
        if S(10 + h) not in r.out or S(50 + h) not in r.out:
            return ('inconclusive', None, wit)
        got = r.out.split(S(10 + h), 1)[1].split(S(50 + h), 1)[0]
        if got != want:
            return ('unnamed:buffer-reached', 'unnamed buffer (text %r) and f1 (modified), hop #%d of %s: the current buffer shows %r, expected %r' % (
                utext, h + 1, [x.decode() for x in script.split(b"\n") if x.startswith(b"e")], common.show(got, 60), common.show(want, 60)), wit)
    return ('ok', None, wit)


def unnamed_named_scenario(args):
    """a buffer that gets its name from its first :w (a name that needs expanding: escaped blanks and specials): from then on it is
    that file's buffer -- saved, reachable by that name with its line kept and without a second read, and :w goes to the same file"""
    import os
    vi, idx = args
    R = rng('c20', 'unnamed-named', idx)
    raw, real = R.choice([(b'my\\ file', 'my file'), (b'a\\|b', 'a|b'), (b'\\#x', '#x'), (b'plain', 'plain'), (b'x\\%y', 'x%y'), (b'dir/in\\ dir', 'dir/in dir')])
    text = b''.join(b'u%d line %d\n' % (idx, j) for j in range(1, R.randint(3, 6)))
    ln = R.randint(2, text.count(b'\n'))
    script = b'a\n' + text + b'.\n%d\nw %s\nec ' % (ln, raw) + S(0) + b'\ne f1\nec ' + S(1) + b'\n1p\nec ' + S(2) + b'\n'
    back = R.choice([b'e ' + raw, b'e #', b'e! ' + raw])
    script += back + b'\nec ' + S(3) + b'\n.=\nec ' + S(4) + b'\n1,$p\nec ' + S(5) + b'\n1s/^/Z/\nw\nec ' + S(6) + b'\nq\nec ' + S(7) + b'\n'
    d = common.case_dir('e')
    os.makedirs(os.path.join(d, 'dir'))
    r, d = common.run_ex(vi, script, files={'f1': b'f1 one\n'}, timeout=30, args=[], cwd=d)
    names = sorted(os.path.relpath(os.path.join(dp, f), d) for dp, _, fs in os.walk(d) for f in fs)
    final = common.readf(d, real)
    common.rmcase(d)
    wit = {'index': idx, 'script': script}
    if r.timed_out or common.san_report(r) or S(6) not in r.out:
        return ('inconclusive', None, wit)
    seg = lambda a, b: r.out.split(S(a), 1)[1].split(S(b), 1)[0]
    if b'f1 one' not in seg(1, 2):
        return ('unnamed:named-but-not-saved', 'unnamed buffer written as %r: the following :e f1 was not carried out (%r)' % (raw, common.show(seg(0, 1), 80)), wit)
    m = re.search(rb'(\d+)', seg(3, 4))
    if seg(4, 5) != text or not m or int(m.group(1)) != ln:
        return ('unnamed:named-buffer-not-found', 'unnamed buffer written as %r, left on line %d: %s shows line %s and text %r' % (raw, ln, back, m.group(1) if m else None, common.show(seg(4, 5), 80)), wit)
    if names != sorted(['f1', real]) or final != b'Z' + text:
        return ('unnamed:named-writes-elsewhere', 'unnamed buffer written as %r: files now %s, %r holds %r' % (raw, names, real, common.show(final or b'', 60)), wit)
    if S(7) in r.out:
        return ('unnamed:named-still-modified', 'unnamed buffer written as %r and again with :w: :q is refused' % raw, wit)
    return ('ok', None, wit)


def run(tier, V):
    vi = build('asan')
    n = 1200 if tier == 'quick' else 15000
    base = common.seed() * 104729
    res = pmap(run_history, [(vi, base + i) for i in range(n)])
    nsw = sum(r[1] for r in res)
    nchk = sum(r[2] for r in res)
    cuts = {}
    for bad, _, _, st in res:
        if st == 'inconclusive':
            V.inconclusive += 1
        elif st:
            cuts[st.split(' at ')[0]] = cuts.get(st.split(' at ')[0], 0) + 1
        for key, what, wit in bad:
            V.violation(key, what, wit)
    nsc = 150 if tier == 'quick' else 2500
    scok = 0
    for fn in (aw_scenario, split_scenario, unnamed_alt_scenario, table_full_scenario, unnamed_named_scenario, evict_scenario, arglist_scenario):
        for key, what, wit in pmap(fn, [(vi, base + i) for i in range(nsc)]):
            if key == 'inconclusive':
                V.inconclusive += 1
            elif key == 'ok':
                scok += 1
            elif key != 'ok-trivial':
                V.violation(key, what, wit)
    nchk += 7 * nsc
    nsw += scok
    cov = {'autowrite_and_split_window_scenarios': 2 * nsc, 'evaluations': nchk, 'distinct_nontrivial': nsw, 'histories': n, 'observations': nchk, 'switches_checked': nsw, 'cuts': cuts,
           'rule': ('%d histories of 10-50 ops over 2,3,5,8 or 16 files: open (:e), switch (:e path, :e!, :e #, :b N, :b +/-, :b %%/#/^), edit, undo, redo, write, delete-buffer (:b !), renumber (:b ~), tag jumps and pops (:ta, :po), '
                    'change of a file on disk behind the editor, final :q; + autowrite scenarios (several modified buffers, :se aw, :q/:x/:wq: every file gets the text of its own buffer) + vi scenarios with two windows on two buffers (each keeps its own cursor line) + buffers named by their first :w with names that need expanding + files read into reused slots of a full table + argument-list walks (:n, :prev, also refused ones).  after EVERY op: buffer list (ids, MRU order, flags), current line and a dump of the current buffer are observed and compared with the '
                    'model.  non-trivial = an observation right after a successful switch (text, line and flags of the reached buffer compared with how it was left).' % n),
           'samples': [{'ops': [c.decode() for _, c in gen_history(rng('c20', base), 3, 12) if c]}]}
    assumptions = ['edits used are prefix insertions / appended lines with unique letters, so that equal texts mean equal history positions',
                   'a file changed on disk behind the editor makes that buffer\'s flag unpredictable from texts; its flag is then not compared',
                   'eviction with more than 16 paths is covered by C02']
    return cov, assumptions


def REPLAY(w):
    return run_history((build('asan'), w['index']))[0]
