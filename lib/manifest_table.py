"""Table of claimed checks (consumed by tools/mkmanifest.py)."""
CHECKS = [
    {'id': 'C16', 'technique': 'probe-driven exhaustive law monitor against Python code-point semantics, under ASan+UBSan',
     'text': 'Every Unicode scalar value and every string up to a small length over a 1-4 byte alphabet is pushed through the real uc_* helpers (and the regex engine\'s private decoders) in an ASan+UBSan probe and compared with Python\'s codec; plus random long strings and editing programs with a UTF-8 validity oracle. Exhaustive on the finite sub-domains, sampled beyond; held-on-observed, not proved.',
     'note': 'trusts Python\'s UTF-8 codec as reference; probe calls only functions declared in vi.h'},
]
NOT_BUILT = {}
