"""Table of claimed checks (consumed by tools/mkmanifest.py)."""
CHECKS = [
    {'id': 'C16', 'technique': 'probe-driven exhaustive law monitor against Python code-point semantics, under ASan+UBSan',
     'text': 'Every Unicode scalar value and every string up to a small length over a 1-4 byte alphabet is pushed through the real uc_* helpers (and the regex engine\'s private decoders) in an ASan+UBSan probe and compared with Python\'s codec; plus random long strings and editing programs with a UTF-8 validity oracle. Exhaustive on the finite sub-domains, sampled beyond; held-on-observed, not proved.',
     'note': 'trusts Python\'s UTF-8 codec as reference; probe calls only functions declared in vi.h'},
    {'id': 'C17', 'technique': 'probe-driven algebraic-law monitor (tiling, round-trip, neighbour laws) + table-driven width oracle over all code points, ASan+UBSan',
     'text': 'ren_position/ren_pos/ren_off/ren_next/ren_cursor/ren_noeol of the real code are evaluated for all short lines over a 7-symbol alphabet (tabs, wide, zero-width, placeholder, RTL) and random long lines under many order/td/lim settings; the laws of the statement are asserted on the returned arrays; width classes of all 1.1M code points are compared with a linear search of the tables parsed from the source.',
     'note': 'tables in uc.c/conf.h are taken as the specification of width classes; laws evaluated in Python on what the probe observed'},
    {'id': 'C18', 'technique': 'probe-driven law monitor (permutation, run-reversal model from conf.h classes) + Unicode-decomposition oracle for shaping, ASan+UBSan',
     'text': 'dir_reorder/dir_context/ren_position/uc_shape/ren_translate of the real code are evaluated on all short lines over an 8-symbol bidi alphabet and on random mixes for every textdirection value; results must be permutations with the terminator last, equal the run-reversal model where only letter runs are involved, and shaped letters must be the presentation form Unicode assigns for the joining context.',
     'note': 'character classes read from conf.h; Unicode data from Python unicodedata; U+0649 exception documented'},
    {'id': 'C10', 'technique': 'reference-model monitor: real rset_make/rset_find (ASan+UBSan probe) vs an independent AST-interpreting backtracking matcher; depth-cut hook gates the completeness clause',
     'text': 'All small expressions over the token alphabet (exhaustive in thorough, seed-chosen slice in quick) on all short lines and flag combinations, random larger patterns with classes/ranges/bounded repeats on multi-byte lines, pattern sets for the index clause and depth-limit witnesses; each reported span is checked for genuineness, leftmost-ness, priority order and group spans against the reference matcher.',
     'note': 'reference matcher written from the statement (priority-ordered backtracking); cases with a counted depth cut or empty-iterating unbounded loops are checked for soundness only'},
    {'id': 'C11', 'technique': 'exhaustive-small sanitizer run (ASan+UBSan) with in-probe range/char-boundary assertions, step budget and watchdog; directed pool also typed into the real binary',
     'text': 'Every string up to length 5 (quick) / 6 (thorough) over 16 metacharacters, random byte strings and a directed pool of malformed constructs are compiled through both rset_make and rstr_make and matched against a family of lines; any sanitizer report, crash, hang or offset outside 0<=so<=eo<=len / off a character boundary is a violation.',
     'note': 'ASan/UBSan detect what leaves an object or overflows; termination = within step budget and watchdog'},
    {'id': 'C12', 'technique': 'differential monitor: rstr_make/rstr_find vs rset_make/rset_find on identical inputs inside the ASan+UBSan probe, exhaustive over a small domain',
     'text': 'All anchor/word-boundary combinations x all short literals x all short newline-terminated lines x icase x NOTBOL x NOTEOL (tens of millions of comparisons), plus random longer cases and operator-insertion cases: found/not-found, offsets and unset groups must agree between the literal search and the general engine.',
     'note': 'the general engine is the reference; comparisons in which the engine hit its depth limit are discarded'},
]
NOT_BUILT = {}
