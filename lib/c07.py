"""C07: vi cursor motions land where the reference motion semantics say.

Reference-model monitor on the real `vi -v` (ASan+UBSan): a motion sequence is typed, then a marker
character is inserted at the cursor and the buffer written; position and text are compared with
model_vi (code points, display columns, sticky column, window top for H/M/L), plus the model-free
invariants (text unchanged, cursor on an existing character, never on the terminator).
"""
import common, gen, c17
import model_vi as mv
from common import pmap, rng, build

MARK = '\ue000'
SINGLE = ['h', 'l', 'j', 'k', '0', '^', '$', '|', 'w', 'b', 'e', 'W', 'B', 'E', 'fa', 'Fa', 'ta', 'Ta', 'fo', 'F ', 't.', 'Tx', ';', ',', 'G', '+', '-', '_', '%', '{', '}', 'H', 'M', 'L', ' ', '\x08', '\n']
COUNTS = ['', '1', '2', '3', '7', '99']


def run_keys(vi, lines, keys, rows=24, cols=80):
    r, d = common.run_vi(vi, keys.encode('utf-8'), files={'f1': gen.buf_bytes(lines)}, timeout=60, lines=rows, cols=cols)
    out = common.readf(d, 'out')
    common.rmcase(d)
    return r, out


def make_case(idx, tier):
    R = rng('c07', idx)
    kind = R.choice(['ascii', 'ltr', 'ltr'])
    mode = R.random()
    rows = R.choice([24, 24, 8, 5])
    if mode < 0.55:
        # one motion from a chosen start position
        lines = [gen.rand_line(R, kind, 5) for _ in range(R.randint(1, 6))]
        if R.random() < 0.15:
            lines.insert(R.randrange(len(lines) + 1), R.choice(['()', '{ a (b) }', 'x(y[z]w)', '']))
        r0 = R.randrange(len(lines))
        o0 = R.randrange(max(1, len(lines[r0])))
        pre = '%dG0' % (r0 + 1) + ('%dl' % o0 if o0 else '')
        if R.random() < 0.3:
            pre += R.choice(['fa', 'tb', 'Fo', 'T ', 'fx', '$', '20|'])      # history for ; , and the sticky column
        body = R.choice(COUNTS) + R.choice(SINGLE)
        keys = pre + body
    else:
        lines = gen.rand_buffer(R, kind, 10 if mode < 0.9 else 40, allow_empty=R.random() < 0.3)
        n = R.randint(2, 12)
        keys = ''
        for _ in range(n):
            m = gen.vi_motion(R, 'aoxb .,(é')
            if m.startswith(("'", '`')):
                m = R.choice(SINGLE)
            if R.random() < 0.12:
                # a yank in between (text unchanged): its counts - before the operator, after it, both - are its own and over when it is done
                m = R.choice(['', '2', '3']) + 'y' + R.choice(['2', '3', '2', '']) + R.choice(['w', 'l', 'j', 'e', 'fa', 'h', 'b', '$', 'k'])
            keys += m
    if R.random() < 0.05:
        # four-byte characters that differ in their last byte only, as targets of f F t T ; ,
        sib = ['😀', '😁', '😂', '𠀀', '𠀁', 'a', ' ', 'b😀', 'x']
        lines = [''.join(R.choice(sib) for _ in range(R.randint(3, 14))) for _ in range(R.randint(1, 4))]
        keys = '%dG' % R.randint(1, len(lines)) + R.choice(['0', '$', '3|']) + ''.join(R.choice(['', '2', '3']) + R.choice(['f', 'F', 't', 'T']) + R.choice(['😀', '😁', '𠀁', '𠀀', 'a']) + R.choice(['', ';', ',', ';;', ',;'])
                                                                                     for _ in range(R.randint(1, 4)))
    x = R.random()
    if x < 0.06 and lines:
        # CR LF files, form feeds: they are blanks for words and for the first non-blank, whatever they look like on screen
        lines = [l + '\r' for l in lines] if R.random() < 0.6 else [R.choice(['\f', '\v', '\f ']) + l for l in lines]
    elif x < 0.12 and lines:
        # a line longer than the lim option (256 characters): laid out by the plain path, still one cell run per character width
        k = R.randrange(len(lines))
        lines[k] = R.choice(['漢字', 'ab漢', '\tx字', 'éé']) * R.choice([2, 5]) + R.choice(['a' * 2, 'ab ', 'x字']) * R.choice([130, 200, 300])      # (always more than 256 characters)
        keys = '%dG' % (k + 1) + R.choice(['10|', '5|', '9|j', '7|k', '300|', '$', '12|l', '3|', '6|', '8|h']) + R.choice(['', '', 'l', 'h', keys[:6]])
    return {'lines': lines, 'keys': keys, 'rows': rows, 'idx': idx}


def run_case(args):
    vi, idx, W, tier = args
    case = make_case(idx, tier)
    keys = case['keys'] + '\x1bi' + MARK + '\x1b:w! out\n'
    r, out = run_keys(vi, case['lines'], keys, rows=case['rows'])
    wit = {'index': idx, 'lines': case['lines'], 'keys': case['keys'], 'rows': case['rows']}
    rep = common.san_report(r)
    if rep:
        return (rep, 'sanitizer/crash: keys %r: %s' % (case['keys'], r.err[-400:].decode('latin-1')), wit, False)
    if r.timed_out or out is None:
        return ('inconclusive', None, wit, False)
    try:
        txt = out.decode('utf-8')
    except UnicodeDecodeError:
        return ('motion:invalid-utf8', 'output not UTF-8', wit, False)
    glines = txt.split('\n')[:-1] if txt.endswith('\n') else txt.split('\n')
    pos = [(i, l.index(MARK)) for i, l in enumerate(glines) if MARK in l]
    clean = [l.replace(MARK, '') for l in glines]
    want_lines = case['lines'] if case['lines'] else ['']
    # model-free invariants
    if len(pos) != 1 or clean != (case['lines'] if case['lines'] else clean if clean == [''] else case['lines']):
        if not (not case['lines'] and clean == ['']):
            return ('motion:text-changed', 'keys %r changed the text: %r -> %r' % (case['keys'], case['lines'], clean), wit, False)
    pr, po = pos[0]
    if clean[pr] and po >= len(clean[pr]):
        return ('motion:cursor-on-terminator', 'keys %r on %r: cursor is on the terminator of line %d' % (case['keys'], case['lines'], pr + 1), wit, False)
    M = mv.Vi(case['lines'], W, rows=case['rows'] - 1)
    try:
        M.run(case['keys'] + '\x1b')
    except mv.Unknown:
        return ('cut', None, None, False)
    er, eo = M.row, M.off
    if not case['lines']:
        er, eo = 0, 0
    if (pr, po) != (er, eo):
        return ('motion:position', 'keys %r on %r (window of %d rows): cursor ends at line %d offset %d, reference says line %d offset %d' % (
            case['keys'], case['lines'], case['rows'] - 1, pr + 1, po, er + 1, eo), wit, False)
    return (None, None, None, (er, eo) != (0, 0))


def run(tier, V):
    vi = build('asan')
    W = c17.Widths()
    n = 6000 if tier == 'quick' else 50000
    base = common.seed() * 122949823 % (1 << 40)
    res = pmap(run_case, [(vi, base + i, W, tier) for i in range(n)], procs=True)
    moved = 0
    cuts = 0
    for key, what, wit, mvd in res:
        if key == 'inconclusive':
            V.inconclusive += 1
        elif key == 'cut':
            cuts += 1
        elif key:
            V.violation(key, what, wit)
        elif mvd:
            moved += 1
    c0 = make_case(base, tier)
    cov = {'evaluations': n, 'distinct_nontrivial': moved, 'cut_by_model': cuts,
           'rule': ('%d cases: (a) single motions h l j k 0 ^ $ | w b e W B E f F t T ; , G + - _ %% { } H M L space backspace with counts {none,1,2,3,7,99} from chosen start positions (with f/t and sticky-column history); '
                    '(b) random sequences of 2-12 motions, with counted yanks in between (the text stays, the counts must not leak); four-byte characters that differ in the last byte as find targets; buffers over ASCII, punctuation, blanks, tabs, multi-byte, wide and combining characters, empty lines, empty buffers; windows of 4, 7 and 23 rows.  '
                    'cursor observed through a marker.  non-trivial = the cursor ended somewhere else than line 1 offset 0.' % n),
           'samples': [{'lines': c0['lines'][:4], 'keys': c0['keys']}]}
    assumptions = ['reference = model_vi (neatvi dialect as listed in DESIGN.md Appendix A where POSIX is silent)', 'left-to-right text only; marks, searches and section motions are not part of C07']
    return cov, assumptions


def REPLAY(w):
    return run_case((build('asan'), w['index'], c17.Widths(), 'quick'))[:2]
