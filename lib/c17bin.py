"""C17 real-binary part: h / l / N| on lines with tabs, wide and RTL characters (filled in with the vi harness)."""
def run(tier, V):
    return {}
