"""C17 real-binary part: l / h / N| on lines with tabs, wide, placeholder and right-to-left
characters move to the character displayed immediately to the right / left / at the column.

Oracle: visual order from the run-reversal model of C18 (character classes from conf.h) and the
table-driven cell widths of C17; the cursor is observed through a marker.
"""
import common, gen, tables
from common import pmap, rng, build

MARK = '\ue000'


def layout(line, W, R2L, NEUT, ctx=1):
    import c18
    ordv = c18.model_ord(line + '\n', ctx, R2L, NEUT)
    if ordv is not None and all(ord(c) < 128 for c in line):
        ordv = list(range(len(line) + 1))      # order=1 (default): lines of single-byte characters only are not reordered at all
    if ordv is None:
        return None
    n = len(line)
    vis = sorted(range(n + 1), key=lambda i: ordv[i])     # logical indices in visual order (terminator last)
    pos = {}
    c = 0
    for i in vis:
        pos[i] = c
        c += 1 if i == n else W.cwid(ord(line[i]), c)
    return vis, pos, c


def run_case(args):
    vi, idx, W, R2Ls, NEUTs = args
    R = rng('c17b', idx)
    R2L, NEUT = set(R2Ls), set(NEUTs)
    words = ['ab', 'x', 'foo', '\t', '中', 'سلام', 'بب', 'ا', ' ', ' ', '1', '-', 'é', 'ّ', 'ＷＷ']
    line = R.choice(['a', 'x ', 'ab\t']) + ''.join(R.choice(words) for _ in range(R.randint(1, 8)))
    pre = ''
    td = 1
    x = R.random()
    if x < 0.25:
        # right-to-left context (first letter, or forced with td=-2): columns run from the right edge, l still moves right on screen
        line = R.choice(['سلام', 'ب', 'ا ']) + line
    elif x < 0.4:
        td = R.choice([-2, -1, 2])
        pre = ':se td=%d\n' % td
    # a prompt that is opened and given up changes nothing (the prompt line itself is edited left-to-right, whatever td is)
    pre += R.choice(['', '', '', ':\x1b', '/\x1b', '?ab\x1b', ':se td\x1b'])
    import c18
    ctx = c18.model_ctx(line, td, R2L)
    lay = layout(line, W, R2L, NEUT, ctx)
    if lay is None:
        return ('cut', None, None, False)
    vis, pos, total = lay
    n = len(line)
    kind = R.choice(['l', 'l', 'h', 'col'])
    if kind == 'l':
        k = R.randint(1, n + 2)
        keys = '0' + 'l' * k
        rank = min(k, n - 1)
        # l moves one character to the right on screen and stops in front of the terminator
        seq = [i for i in vis if i != n]
        start = seq.index(0)
        want = seq[min(start + k, len(seq) - 1)] if ctx > 0 else seq[max(start - k, 0)]
    elif kind == 'h':
        k = R.randint(1, n + 2)
        keys = '$' + 'h' * k
        seq = [i for i in vis if i != n]
        start = seq.index(n - 1)
        want = seq[max(start - k, 0)] if ctx > 0 else seq[min(start + k, len(seq) - 1)]
        if line[n - 1] in R2L:
            return ('cut', None, None, False)
    else:
        col = R.randint(1, total + 3)
        keys = '%d|' % col
        want = None
        for i in vis:
            if i != n and pos[i] <= col - 1:
                if want is None or pos[i] > pos[want]:
                    want = i
        if want is None:
            want = 0
        if col - 1 >= pos[n]:
            # on or beyond the terminator's cell: the cursor is pulled back to the last character of the line
            want = n - 1
    data = (pre + keys + 'i' + MARK + '\x1b:w! out\n').encode('utf-8')
    r, d = common.run_vi(vi, data, files={'f1': (line + '\n').encode('utf-8')}, timeout=60, cols=200)
    out = common.readf(d, 'out')
    common.rmcase(d)
    wit = {'index': idx, 'line': line, 'keys': pre + keys, 'context': ctx}
    rep = common.san_report(r)
    if rep:
        return (rep, 'sanitizer/crash: line %r keys %r: %s' % (line, keys, r.err[-300:].decode('latin-1')), wit, False)
    if r.timed_out or out is None:
        return ('inconclusive', None, wit, False)
    try:
        got = out.decode('utf-8').split('\n')[0]
    except UnicodeDecodeError:
        return ('binary:invalid-utf8', 'line %r keys %r' % (line, keys), wit, False)
    if got.replace(MARK, '') != line or MARK not in got:
        return ('binary:text-changed', 'line %r keys %r -> %r' % (line, keys, got), wit, False)
    at = got.index(MARK)
    if at != want:
        return ('binary:%s' % kind, 'line %r keys %r: cursor on character #%d (%r), the character displayed %s is #%d (%r); visual order %s' % (
            line, keys, at, line[at] if at < n else '$', {'l': 'k steps to the right', 'h': 'k steps to the left', 'col': 'at that column'}[kind], want, line[want], vis), wit, False)
    return (None, None, None, vis != list(range(n + 1)))


def run(tier, V):
    vi = build('asan')
    import c17
    W = c17.Widths()
    R2Ls, NEUTs = tables.conf_macro('CR2L'), tables.conf_macro('CNEUT')
    if R2Ls is None or NEUTs is None:
        V.inconclusive += 1
        return {}
    n = 600 if tier == 'quick' else 10000
    base = common.seed() * 7
    res = pmap(run_case, [(vi, base + i, W, R2Ls, NEUTs) for i in range(n)])
    nt = 0
    for key, what, wit, reordered in res:
        if key == 'inconclusive':
            V.inconclusive += 1
        elif key == 'cut':
            pass
        elif key:
            V.violation(key, what, wit)
        elif reordered:
            nt += 1
    return {'binary_runs': n, 'binary_nontrivial': nt, 'samples': [{'line': 'ab سلام cd', 'keys': '0lll'}]}
