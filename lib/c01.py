"""C01: write-out equals buffer text; read-then-write reproduces the file byte for byte.

Boundary-directed I/O monitor on the real binary (ASan+UBSan): the oracle is computed from the
input bytes alone (split at newlines, re-terminate), compared byte for byte with what the editor
wrote / printed.
"""
import os
import common
from common import pmap, rng, build

SENT = b'\x01\x02VSENT'


def split_lines(data):
    if not data:
        return []
    parts = data.split(b'\n')
    if parts[-1] == b'':
        parts.pop()
    return parts


def expected(lines, a=None, b=None):
    sel = lines if a is None else lines[a - 1:b]
    return b''.join(l + b'\n' for l in sel)


def rand_bytes(R, n, style):
    if style == 'ascii':
        return bytes(R.choice(b'abcdefghij klmnop\tXYZ0123456789.,;') for _ in range(n))
    if style == 'utf8':
        pool = ['a', 'b', ' ', 'é', '中', '😀', 'ب', '\t', 'z', '́']
        out = b''
        while len(out) < n:
            c = R.choice(pool).encode()
            if len(out) + len(c) > n:
                c = b'.'
            out += c
        return out
    return bytes(R.choice([R.randint(1, 9), R.randint(11, 255)]) for _ in range(n))       # any byte but NUL and newline


def make_content(R):
    """returns (bytes, description)"""
    style = R.choice(['ascii', 'utf8', 'raw', 'raw'])
    k = R.random()
    LL = [0, 1, 127, 128, 1022, 1023, 1024, 1025, 1026, 2047, 2048, 2049, 4094, 4095, 4096, 4097, 4098, 8191, 8192, 8193]
    if k < 0.25:        # few lines with boundary lengths
        lens = [R.choice(LL) for _ in range(R.randint(1, 5))]
        desc = 'boundary-lengths %s' % lens
    elif k < 0.45:      # running sum crossing the 4096-byte write batch at -1/0/+1
        first = R.choice([4094, 4095, 4096, 4090, 2000, 3000])
        pre = []
        tot = 0
        while tot + 60 < first:
            n = R.randint(1, 60)
            pre.append(n)
            tot += n + 1
        pre.append(max(0, first - tot - 1 + R.choice([-1, 0, 1])))
        lens = pre + [R.choice([0, 1, 10, 4095, 4096, 5000])] + [R.randint(0, 50) for _ in range(R.randint(0, 4))]
        desc = 'batch-crossing sum~%d then %d' % (first, lens[len(pre)])
    elif k < 0.6:       # file size around k*1024 (read chunk) and sbuf growth points
        size = R.choice([1024, 2048, 3072, 4096, 128, 256, 512, 8192, 16384]) + R.choice([-1, 0, 1])
        lens = []
        tot = 0
        while tot < size:
            n = min(R.randint(0, 200), size - tot - 1)
            if n < 0:
                break
            lens.append(n)
            tot += n + 1
        desc = 'size~%d' % size
    elif k < 0.75:      # line-table growth
        cnt = R.choice([0, 1, 2, 511, 512, 513, 1023, 1024, 1025, 2049])
        lens = [R.choice([0, 1, 2, 5]) for _ in range(cnt)]
        desc = 'line-count %d' % cnt
    else:
        lens = [R.choice([0, 0, 1, 2, 10, 80, 200]) for _ in range(R.randint(0, 40))]
        desc = 'random mix'
    data = b'\n'.join(rand_bytes(R, n, style) for n in lens)
    final_nl = R.random() < 0.7
    if lens and final_nl:
        data += b'\n'
    if lens and not final_nl and lens[-1] == 0:
        # a file ending in an empty unterminated line is the same bytes as one with a final newline
        pass
    return data, '%s style=%s final_newline=%s' % (desc, style, final_nl)


def run_case(args):
    vi, idx = args[:2]
    shim = args[2] if len(args) > 2 else None
    R = rng('c01', idx)
    data, desc = make_content(R)
    lines = split_lines(data)
    n = len(lines)
    prev_kind = R.choice(['absent', 'shorter', 'equal', 'longer', 'longer'])
    files = {'f1': data}
    bad = []
    form = R.choice(['w', 'w', 'range', 'range', 'own', 'wq', 'print', 'read-mid', 'vi-w', 'vi-ZZ', 'xa', 'aw-q', 'reread', 'fifo'])
    if form.startswith('vi'):
        try:
            data.decode('utf-8')
        except UnicodeDecodeError:
            form = 'w'
    if form == 'range' and n == 0:
        form = 'w'
    a = b = None
    target = 'out'
    script = b''
    exp_out = None
    exp_print = None
    exp_second = None
    if form in ('w', 'vi-w'):
        exp_out = expected(lines)
        script = b'w! out\n'
    elif form == 'range':
        a = R.choice([1, 1, R.randint(1, n), max(1, n - 1), n])
        b = R.choice([a, n, R.randint(a, n)])
        exp_out = expected(lines, a, b)
        script = b'%d,%dw! out\n' % (a, b)
    elif form == 'own':
        target = 'f1'
        exp_out = expected(lines)
        script = b'w\n'
    elif form in ('wq', 'vi-ZZ'):
        target = 'f1'
        exp_out = expected(lines)
        # make the buffer dirty and clean again through an edit+undo? keep it unedited: write unconditionally
        script = b'wq\n'
    elif form == 'print':
        exp_print = expected(lines)
        script = b'ec ' + SENT + b'B\n%p\nec ' + SENT + b'E\n'
    elif form == 'read-mid':
        d2, _ = make_content(rng('c01', idx, 'second'))
        d2 = d2[:3000]
        files['f2'] = d2
        l2 = split_lines(d2)
        if n == 0:
            pos = 0
            script = b'r f2\nw! out\n'
            exp_out = expected(l2)
        else:
            pos = R.randint(1, n)
            script = b'%dr f2\nw! out\n' % pos
            exp_out = expected(lines[:pos] + l2 + lines[pos:])
    elif form in ('xa', 'aw-q'):
        # a buffer that is NOT the current one is written (write-all, or autowrite at quit): its own lines, all of them
        d2, _ = make_content(rng('c01', idx, 'second'))
        d2 = d2[:R.choice([0, 40, 3000, 20000])]
        files['f2'] = d2
        l2 = split_lines(d2)
        target = 'f1'
        edit = n > 0 and R.random() < 0.6 or form == 'aw-q'
        if form == 'aw-q' and n == 0:
            form = 'xa'
            edit = False
        exp_out = (b'X\n' if edit else b'') + expected(lines)
        script = (b'1i\nX\n.\n' if edit else b'') + b'e! f2\n' + (b'xa\n' if form == 'xa' else b'se aw\nq\n')
        exp_second = ('f2', expected(l2))
    elif form == 'fifo':
        # the file arrives in pieces (a named pipe fed in bursts): read() returns less than a full chunk long before the end
        exp_out = expected(lines)
        script = b'w! out\n'
    elif form == 'reread':
        # the file changes on disk (any size, also empty) and is read again into the same, non-empty buffer
        d2, _ = make_content(rng('c01', idx, 'second'))
        d2 = d2[:R.choice([0, 0, 1, 40, 3000, 20000])]
        files['alt'] = d2
        exp_out = expected(split_lines(d2))
        script = b'rx z cp alt f1\ne!\nw! out\n'
    if target == 'out' and exp_out is not None:
        if prev_kind == 'shorter':
            files['out'] = exp_out[:len(exp_out) // 2]
        elif prev_kind == 'equal':
            files['out'] = bytes(len(exp_out))
        elif prev_kind == 'longer':
            files['out'] = exp_out + b'TRAILING-OLD-DATA\n' * R.choice([1, 300])
    envx = None
    fault = None
    if shim and not form.startswith('vi') and exp_out is not None and R.random() < 0.15:
        # the kernel accepts only part of one write(): the rest must follow, from where the short write stopped
        fault = 'write:%d:%s' % (R.randint(1, 3), R.choice(['short1', 'shorthalf', 'shortallbut1']))
        if form in ('w', 'range', 'own', 'read-mid') and R.random() < 0.4:
            # ... or the rest does NOT follow (an error after the short count): then the write must not be reported as done
            k = R.randint(1, 3)
            fault = 'write:%d:%s,write:%d:%s' % (k, R.choice(['short1', 'shorthalf', 'shortallbut1']), k + 1, R.choice(['ENOSPC', 'EFBIG', 'EIO']))
        envx = {'LD_PRELOAD': shim, 'NEATVI_FAULT': fault, 'ASAN_OPTIONS': common.base_env('/tmp')['ASAN_OPTIONS'] + ':verify_asan_link_order=0'}
    if form.startswith('vi'):
        keys = b':w! out\n' if form == 'vi-w' else b'ZZ'
        if form == 'vi-ZZ':
            # ZZ (= :x) writes only a modified buffer: modify and restore the text first (x then P)
            if n == 0 or len(lines[0]) == 0:
                keys = b':w\n'
            else:
                keys = b'xu:w\n'
        r, d = common.run_vi(vi, keys, files=files, timeout=90)
    else:
        if form == 'fifo':
            import threading, time as _t
            d0 = common.case_dir('e')
            os.mkfifo(os.path.join(d0, 'ff'))
            cuts = sorted(R.sample(range(1, max(2, len(data))), min(3, max(0, len(data) - 1)))) if len(data) > 1 else []

            def feed():
                try:
                    with open(os.path.join(d0, 'ff'), 'wb', buffering=0) as f:
                        prev = 0
                        for c in cuts + [len(data)]:
                            f.write(data[prev:c])
                            prev = c
                            _t.sleep(0.15)
                except OSError:
                    pass
            th = threading.Thread(target=feed, daemon=True)
            th.start()
            r, d = common.run_ex(vi, script, files={}, timeout=90, cwd=d0, args=['ff'])
            th.join(2)
        else:
            r, d = common.run_ex(vi, script, files=files, timeout=90, envx=envx)
    got = common.readf(d, target)
    got2 = common.readf(d, exp_second[0]) if exp_second else None
    common.rmcase(d)
    wit = {'index': idx, 'content': data, 'desc': desc, 'form': form, 'range': (a, b), 'previous_target': prev_kind, 'script': script, 'short_write': fault}
    rep = common.san_report(r)
    if rep:
        return (rep, 'sanitizer/crash while %s on %s: %s' % (form, desc, r.err[-400:].decode('latin-1')), wit, desc, form)
    if r.timed_out:
        return ('inconclusive', 'timeout', wit, desc, form)
    if fault and ',' in fault and b'[w]' not in r.out:
        return (None, None, None, desc, form)      # the failure was reported (what the file then holds is C03's business)
    if exp_out is not None:
        if got is None:
            if not (exp_out == b'' and target == 'out' and False):
                return ('write:missing', '%s on %s: target file was not produced' % (form, desc), wit, desc, form)
        elif got != exp_out:
            i = next((k for k in range(min(len(got), len(exp_out))) if got[k] != exp_out[k]), min(len(got), len(exp_out)))
            key = 'write:length' if got[:len(exp_out)] == exp_out or exp_out[:len(got)] == got else 'write:bytes'
            if key == 'write:length' and len(got) > len(exp_out) and prev_kind == 'longer':
                key = 'write:not-truncated'
            return (key, '%s on %s (previous target %s): file has %d bytes, expected %d; first difference at byte %d (got %r expected %r)' % (
                form, desc, prev_kind, len(got), len(exp_out), i, got[i:i + 20], exp_out[i:i + 20]), wit, desc, form)
    if exp_second is not None and got2 != exp_second[1] and form == 'xa':
        return ('write:bytes', '%s on %s: the second buffer\'s file %s has %s bytes, expected %d' % (form, desc, exp_second[0], None if got2 is None else len(got2), len(exp_second[1])), wit, desc, form)
    if exp_print is not None:
        out = r.out
        try:
            body = out.split(SENT + b'B', 1)[1].split(SENT + b'E', 1)[0]
        except IndexError:
            return ('print:sentinels', 'sentinels not found in stdout', wit, desc, form)
        if body != exp_print:
            i = next((k for k in range(min(len(body), len(exp_print))) if body[k] != exp_print[k]), min(len(body), len(exp_print)))
            return ('print:bytes', '%%p on %s: %d bytes printed, expected %d; first difference at %d' % (desc, len(body), len(exp_print), i), wit, desc, form)
    return (None, None, None, desc, form)


def run(tier, V):
    vi = build('asan')
    n = 2500 if tier == 'quick' else 30000
    base = common.seed() * 100003
    import c03
    shim = c03.build_shim()
    res = pmap(run_case, [(vi, base + i, shim) for i in range(n)])
    forms = {}
    kinds = {}
    for key, what, wit, desc, form in res:
        forms[form] = forms.get(form, 0) + 1
        kinds[desc.split()[0]] = kinds.get(desc.split()[0], 0) + 1
        if key == 'inconclusive':
            V.inconclusive += 1
        elif key:
            V.violation(key, what, wit)
    cov = {'evaluations': n, 'distinct_nontrivial': n - forms.get('x', 0), 'forms': forms, 'content_kinds': kinds,
           'rule': ('%d cases: contents over bytes 1..255 (ASCII / UTF-8 / arbitrary bytes) with directed boundaries (line lengths around 128, 1024, 2048, 4096, 8192; running sums crossing the 4096-byte write '
                    'batch at -1/0/+1; file sizes around k*1024 and 128*2^k; line counts 0,1,2,511..513,1023..1025,2049; with/without final newline) x operation (w!, a,bw!, w own path, wq, %%p, r in the middle + w, vi :w, vi x-u-:w, :xa and autowrite-at-quit of a buffer that is not the current one, :e! after the file changed on disk, a file read from a named pipe fed in bursts) '
                    'x previous target (absent/shorter/equal/longer) x (15%%) one write() cut short by the kernel (the rest must follow; or an error follows instead, and then no success may be reported).  expected bytes computed from the input alone.  every case is distinct (seeded) and non-trivial (a file is written or printed and compared).' % n),
           'samples': [{'desc': r[3], 'form': r[4]} for r in res[:5]]}
    assumptions = ['NUL bytes are excluded (the statement says NUL-free)', 'vi-mode forms are used with valid UTF-8 contents only',
                   'short writes and failing system calls belong to C03']
    return cov, assumptions


def REPLAY(w):
    import c03
    return run_case((build('asan'), w['index'], c03.build_shim()))[:2]
