"""C10: regex matches are genuine, leftmost, greedy/left-biased, with right group spans.

Reference-model monitor: rset_make/rset_find of the real engine (ASan+UBSan probe) against the AST
interpreter in model_regex.py.  The depth-limit hook (cut counter) decides which cases count for
the completeness clause.
"""
import itertools, os
import common
import model_regex as mr
from common import pmap, rng, build, VERIF

PROBE = os.path.join(VERIF, 'probe', 'probe.c')
RE_ICASE, RE_NOTBOL, RE_NOTEOL = 1, 2, 4


def hexs(s):
    return s.encode('utf-8').hex() or '-'


def char_index(line, boff):
    """byte offset -> char index, or None if not on a boundary"""
    b = line.encode('utf-8')
    if boff < 0 or boff > len(b):
        return None
    try:
        return len(b[:boff].decode('utf-8'))
    except UnicodeDecodeError:
        return None


def compare(ast, ptxt, line, flags, res, stats, label='single'):
    """res: parsed probe output (idx, cut, groups list); returns list of (key, what)"""
    icase, notbol, noteol = bool(flags & RE_ICASE), bool(flags & RE_NOTBOL), bool(flags & RE_NOTEOL)
    wb = bool(flags & 8)
    idx, cut, g = res
    M = mr.Matcher(ast, line, icase, notbol, noteol, wordbef=wb)
    try:
        exp = M.search()
    except (mr.Budget, RecursionError):
        stats['inconclusive_budget'] += 1
        return []
    out = []
    desc = 'pattern %r line %r flags(icase=%d,notbol=%d,noteol=%d,wordbef=%d)' % (ptxt, line, icase, notbol, noteol, wb)
    span = None
    if idx >= 0:
        so, eo = g[0], g[1]
        a, b = char_index(line, so), char_index(line, eo)
        if a is None or b is None or a > b:
            return [('offsets', '%s: offsets %d,%d not ordered character boundaries' % (desc, so, eo))]
        span = (a, b)
        try:
            if not mr.Matcher(ast, line, icase, notbol, noteol, wordbef=wb).can_match(a, b):
                return [('genuine', '%s: reported span [%d,%d) %r cannot be matched by the pattern there' % (desc, a, b, line[a:b]))]
        except (mr.Budget, RecursionError):
            stats['inconclusive_budget'] += 1
            return []
    if cut or M.emptyloop:
        stats['depth_cut_cases'] += 1
        return out
    if exp is None:
        if idx >= 0:
            out.append(('genuine', '%s: engine reports %s, reference finds nothing' % (desc, span)))
        else:
            stats['agree_nomatch'] += 1
        return out
    st, en, groups = exp
    if idx < 0:
        return [('completeness', '%s: a match [%d,%d) exists, no depth cut was counted, engine reports none' % (desc, st, en))]
    stats['agree_match_checked'] += 1
    if span[0] != st:
        return [('leftmost', '%s: engine starts at %d, leftmost match starts at %d' % (desc, span[0], st))]
    if span[1] != en:
        return [('priority', '%s: engine span %s, first parse in priority order is [%d,%d)' % (desc, span, st, en))]
    # groups
    for gi, (ea, eb) in enumerate(groups, 1):
        if 2 * gi + 1 >= len(g):
            break
        ga, gb = g[2 * gi], g[2 * gi + 1]
        ca = char_index(line, ga) if ga >= 0 else -1
        cb = char_index(line, gb) if gb >= 0 else -1
        if (ca, cb) != (ea, eb):
            return [('groups', '%s: group %d reported (%s,%s) [bytes %d,%d], chosen parse has (%d,%d)' % (desc, gi, ca, cb, ga, gb, ea, eb))]
        if ea >= 0 and not (st <= ea <= eb <= en):
            return [('groups-nesting', '%s: group %d (%d,%d) outside the match' % (desc, gi, ea, eb))]
    extra = len(groups) + 1
    if 2 * extra + 1 < len(g) and (g[2 * extra] != -1 or g[2 * extra + 1] != -1):
        return [('groups-extra', '%s: non-existent group %d reported as (%d,%d)' % (desc, extra, g[2 * extra], g[2 * extra + 1]))]
    if groups:
        stats['with_groups'] += 1
    return out


def new_stats():
    return {k: 0 for k in ('inconclusive_budget', 'depth_cut_cases', 'agree_nomatch', 'agree_match_checked', 'with_groups', 'compile_rejected')}


def run_job(job):
    """job: (exe, [(ast, [(line, flags), ...]), ...])"""
    exe, items = job
    cmds = []
    for ast, cases in items:
        ptxt = mr.render(ast)
        _, ng = mr.number_groups(ast)
        for ic in (0, 1):
            sub = [(l, f) for l, f in cases if (f & 1) == ic]
            if not sub:
                continue
            cmds.append(('rset', ast, ptxt, ic, None))
            cmds.append(('rstr', ast, ptxt, ic, None))
            for l, f in sub:
                cmds.append(('find', ast, ptxt, f, l, ng))
                if l.endswith('\n'):      # (rstr_find is only ever handed buffer lines, which end in a newline; its literal path relies on that)
                    cmds.append(('rfind', ast, ptxt, f, l, ng))      # the same question through the editor's own entry point
    text = ['budget 2000000']
    for c in cmds:
        if c[0] == 'rset':
            text.append('rset %d 1 %s' % (c[3], hexs(c[2])))
        elif c[0] == 'rstr':
            text.append('rstr %d %s' % (c[3], hexs(c[2])))
        else:
            text.append('%s %d %d %s' % (c[0], c[3] & 14, c[5] + 2, hexs(c[4])))
    r = common.run([exe], ('\n'.join(text) + '\n').encode(), env=common.base_env('/tmp'), timeout=900)
    out = [l for l in r.out.decode('ascii', 'replace').split('\n') if l][1:]
    stats = new_stats()
    bad = []
    n = 0
    compiled = True
    last = None
    for c, o in zip(cmds, out):
        if c[0] == 'rstr':
            continue
        if c[0] == 'rfind':
            # what searches, :s and :g are handed: the same verdict and the same span as the set matcher gave
            f = o.split()
            try:
                ridx, rcut, rg = int(f[0]), int(f[2]), [int(x) for x in f[6:8]]
            except Exception:
                continue
            if last is not None and not last[1] and not rcut and ((ridx < 0) != (last[0] < 0) or (ridx >= 0 and rg != last[2][:2])):
                bad.append(('editor-entry-differs', 'pattern %r line %r flags %d: rstr_find gives %d %s, the set matcher %d %s' % (c[2], c[4], c[3], ridx, rg, last[0], last[2][:2]),
                            {'pattern': c[2], 'line': c[4], 'flags': c[3], 'engine': o}))
            last = None
            continue
        if c[0] == 'rset':
            compiled = (o == 'ok')
            if not compiled:
                stats['compile_rejected'] += 1
                bad.append(('compile', 'well-formed pattern %r rejected by rset_make' % c[2], {'pattern': c[2]}))
            continue
        if not compiled or o == 'noset':
            continue
        f = o.split()
        try:
            idx = int(f[0])
            cut = int(f[2])
            g = [int(x) for x in f[6:]]
        except Exception:
            bad.append(('probe:parse', 'unparsable find output %r' % o[:80], {}))
            continue
        n += 1
        last = (idx, cut, g)
        for key, what in compare(c[1], c[2], c[4], c[3], (idx, cut, g), stats):
            bad.append((key, what, {'pattern': c[2], 'line': c[4], 'flags': c[3], 'engine': o}))
    rep = common.san_report(r)
    if rep:
        k = len(out)
        cur = cmds[k] if k < len(cmds) else None
        bad.append((rep, 'sanitizer/crash in probe at command %r: %s' % (cur[2:5] if cur else '?', r.err[-600:].decode('latin-1')),
                    {'pattern': cur[2] if cur else None, 'line': cur[4] if cur and cur[0] == 'find' else None}))
    elif r.timed_out:
        bad.append(('probe:timeout', 'probe batch timed out after %d of %d commands' % (len(out), len(cmds)), {}))
    elif len(out) != len(cmds):
        bad.append(('probe:truncated', 'probe produced %d of %d outputs' % (len(out), len(cmds)), {}))
    return n, stats, bad


def run_sets(job):
    """pattern sets: index clause.  job: (exe, [(asts, icase, [(line, flags)...])...])"""
    exe, items = job
    text = ['budget 2000000']
    plan = []
    for asts, ic, cases in items:
        pt = [mr.render(a) if a is not None else None for a in asts]
        text.append('rset %d %d %s' % (ic, len(asts), ' '.join(hexs(p) if p is not None else '~' for p in pt)))
        plan.append(('rset', asts, pt, ic))
        for l, f in cases:
            mx = max([mr.number_groups(a)[1] for a in asts if a is not None] + [0])
            text.append('find %d %d %s' % (f & 6, mx + 2, hexs(l)))
            plan.append(('find', asts, pt, ic, l, f))
    r = common.run([exe], ('\n'.join(text) + '\n').encode(), env=common.base_env('/tmp'), timeout=900)
    out = [l for l in r.out.decode('ascii', 'replace').split('\n') if l][1:]
    bad = []
    n = 0
    nfound = 0
    ok = True
    for c, o in zip(plan, out):
        if c[0] == 'rset':
            ok = o == 'ok'
            continue
        if not ok:
            continue
        asts, pt, ic, l, f = c[1:]
        fo = o.split()
        idx, cut = int(fo[0]), int(fo[2])
        g = [int(x) for x in fo[6:]]
        # combined reference: alternatives in order, each wrapped in a group
        live = [(i, a) for i, a in enumerate(asts) if a is not None]
        comb = None
        for i, a in reversed(live):
            node = ('grp', a)
            comb = node if comb is None else ('alt', node, comb)
        if comb is None:
            if idx != -1:
                bad.append(('set-index', 'empty set reported index %d' % idx, {}))
            continue
        M = mr.Matcher(comb, l, bool(ic), bool(f & 2), bool(f & 4))
        try:
            exp = M.search()
        except (mr.Budget, RecursionError):
            continue
        if cut or M.emptyloop:
            continue
        n += 1
        desc = 'set %r icase=%d line %r flags=%d' % (pt, ic, l, f)
        wit = {'patterns': pt, 'icase': ic, 'line': l, 'flags': f, 'engine': o}
        if exp is None:
            if idx >= 0:
                bad.append(('set-genuine', '%s: engine reports index %d, reference finds nothing' % (desc, idx), wit))
            continue
        st, en, groups = exp
        # which wrapper group participated
        gno = 0
        want = None
        off = 0
        for i, a in live:
            gno += 1
            wrapper = gno
            ng = mr.number_groups(a)[1]
            if groups[wrapper - 1][0] >= 0 and want is None:
                want = (i, wrapper, ng)
            gno += ng
        nfound += 1
        if idx != want[0]:
            bad.append(('set-index', '%s: engine index %d, the alternative that matches first is %d' % (desc, idx, want[0]), wit))
            continue
        i, wrapper, ng = want
        expg = [(st, en)] + [groups[wrapper + k] for k in range(ng)]
        for k, (ea, eb) in enumerate(expg):
            if 2 * k + 1 >= len(g):
                break
            ga = char_index(l, g[2 * k]) if g[2 * k] >= 0 else -1
            gb = char_index(l, g[2 * k + 1]) if g[2 * k + 1] >= 0 else -1
            if (ga, gb) != (ea, eb):
                bad.append(('set-groups', '%s: group %d of pattern %d reported (%s,%s) expected (%d,%d)' % (desc, k, i, ga, gb, ea, eb), wit))
                break
    rep = common.san_report(r)
    if rep:
        bad.append((rep, 'sanitizer/crash in probe (sets): %s' % r.err[-600:].decode('latin-1'), {}))
    elif len(out) != len(plan):
        bad.append(('probe:truncated', 'probe (sets) produced %d of %d outputs' % (len(out), len(plan)), {}))
    return n, nfound, bad


def depth_witnesses(exe):
    """inputs whose backtracking depth is known to be well below / above the documented limit (256)"""
    cases = [(('rep', ('lit', 'a'), 0, -1), 'a' * 200 + '\n', 200, 0),
             (('rep', ('brk', False, [('range', 'a', 'z')]), 1, -1), 'x' * 150 + ' y\n', 150, 0),
             (('cat', [('rep', ('any',), 0, -1), ('lit', 'z')]), 'q' * 180 + 'z\n', 181, 0),
             # depth is a matter of ONE attempt: the many failed start positions in front of a late match must not use it up
             (('cat', [('lit', 'b'), ('rep', ('lit', 'c'), 0, 1)]), 'z' * 300 + 'b\n', 1, 0),
             (('cat', [('brk', False, [('range', 'a', 'c')]), ('lit', 'c')]), 'z' * 700 + 'ac\n', 2, 0),
             (('alt', ('lit', 'xy'), ('cat', [('lit', 'b'), ('rep', ('lit', 'b'), 1, -1)])), 'zž' * 200 + 'bbbb\n', 4, 0),
             (('rep', ('lit', 'a'), 0, -1), 'a' * 400 + '\n', None, 1)]
    text = []
    for ast, line, want, expect_cut in cases:
        text.append('rset 0 1 %s' % hexs(mr.render(ast)))
        text.append('find 0 2 %s' % hexs(line))
    r = common.run([exe], ('\n'.join(text) + '\n').encode(), env=common.base_env('/tmp'), timeout=120)
    out = [l for l in r.out.decode('ascii', 'replace').split('\n') if l]
    bad = []
    obs = []
    for k, (ast, line, want, expect_cut) in enumerate(cases):
        if 2 * k + 1 >= len(out):
            bad.append(('probe:truncated', 'depth witnesses truncated', {}))
            break
        f = out[2 * k + 1].split()
        idx, cut, g = int(f[0]), int(f[2]), [int(x) for x in f[6:]]
        obs.append({'pattern': mr.render(ast), 'line_len': len(line) - 1, 'cut': cut, 'span': g[:2]})
        if not expect_cut:
            if cut:
                bad.append(('depth-limit:cut-on-shallow-input', 'pattern %r on a %d-char line needs depth ~%d (< 256 documented) but %d branches were cut' % (mr.render(ast), len(line) - 1, want + 1, cut), {'pattern': mr.render(ast), 'len': len(line)}))
            elif idx != 0 or g[1] - g[0] < want:
                bad.append(('depth-limit:short-match', 'pattern %r on %d chars matched only %s' % (mr.render(ast), len(line) - 1, g[:2]), {}))
    return obs, bad


def run(tier, V):
    exe = build('asan', probe=PROBE)
    R = rng('c10')
    jobs = []
    # (a) exhaustive-small
    depth = 3
    allp = [a for sz, a in mr.enum_exprs(depth)]
    alpha = ['a', 'b', ' ', 'é']
    lines = [''.join(t) + '\n' for L in range(0, 4) for t in itertools.product(alpha, repeat=L)]
    lines4 = [''.join(t) + '\n' for t in itertools.product(alpha, repeat=4)]
    nslices = 24 if tier == 'quick' else 1
    sl = common.seed() % nslices
    pats = allp[sl::nslices]
    for i in range(0, len(pats), 12):
        items = []
        for ast in pats[i:i + 12]:
            ls = lines + R.sample(lines4, 20 if tier == 'quick' else 60)
            cases = [(l, f) for l in ls for f in (range(16) if tier == 'thorough' else (R.sample(range(16), 3)))]
            items.append((ast, cases))
        jobs.append((exe, items))
    # (b) random larger patterns
    nrand = 2500 if tier == 'quick' else 20000
    pool = mr.LETTERS + ['a', 'a', 'b', 'b', ' ', ' ']
    items = []
    for _ in range(nrand):
        ast = mr.rand_ast(R, depth=R.choice([1, 2, 2, 3, 4]))
        cases = []
        for _ in range(8):
            L = R.choice([R.randint(0, 8), R.randint(0, 8), R.randint(8, 60)])
            line = ''.join(R.choice(pool) for _ in range(L)) + R.choice(['\n', '\n', '\n', ''])
            if not line:
                line = '\n'
            cases.append((line, R.randrange(16)))
        # lines derived from the pattern's own literals so that matches are frequent
        lits = [c for c in mr.render(ast) if c.isalnum() or ord(c) > 127] or ['a']
        for _ in range(6):
            line = ''.join(R.choice(lits + [' ', 'a', 'b']) for _ in range(R.randint(1, 14))) + '\n'
            cases.append((line, R.randrange(16)))
        if R.random() < 0.3:
            # a long run of characters the pattern's literals do not contain, then material it may match: the leftmost match
            # begins beyond character 256 (every earlier start position has to fail first)
            line = R.choice(['z', 'z', 'q', 'ž']) * R.choice([254, 255, 256, 257, 300, 513]) + ''.join(R.choice(lits + [' ', 'a', 'b']) for _ in range(R.randint(1, 10))) + '\n'
            cases.append((line, R.choice([0, 0, 2, 8])))
        items.append((ast, cases))
        if len(items) == 12:
            jobs.append((exe, items))
            items = []
    if items:
        jobs.append((exe, items))
    res = pmap(run_job, jobs, procs=True)
    stats = new_stats()
    ncmp = 0
    for n, st, bad in res:
        ncmp += n
        for k in st:
            stats[k] += st[k]
        for key, what, wit in bad:
            if key == 'probe:timeout':      # a loaded machine, not a verdict
                V.inconclusive += 1
                continue
            V.violation(key, what, wit)
    # (c) sets
    sjobs = []
    items = []
    for _ in range(400 if tier == 'quick' else 4000):
        k = R.randint(2, 6)
        asts = [mr.rand_ast(R, depth=R.choice([1, 2]), alphabet=['a', 'b', 'c', 'é', ' ']) if R.random() < 0.9 else None for _ in range(k)]
        if sum(mr.number_groups(a)[1] for a in asts if a is not None) > 20:
            continue
        cases = [(''.join(R.choice(['a', 'b', 'c', 'é', ' ']) for _ in range(R.randint(0, 12))) + '\n', R.randrange(8)) for _ in range(10)]
        items.append((asts, R.randrange(2), cases))
        if len(items) == 40:
            sjobs.append((exe, items))
            items = []
    if items:
        sjobs.append((exe, items))
    sres = pmap(run_sets, sjobs, procs=True)
    nset = sum(r[0] for r in sres)
    nsetfound = sum(r[1] for r in sres)
    for r in sres:
        for key, what, wit in r[2]:
            V.violation(key, what, wit)
    # (d) depth limit witnesses
    obs, bad = depth_witnesses(exe)
    for key, what, wit in bad:
        V.violation(key, what, wit)
    V.inconclusive += stats['inconclusive_budget']
    cov = {'evaluations': ncmp + nset, 'distinct_nontrivial': stats['agree_match_checked'] + nsetfound,
           'comparisons_single': ncmp, 'comparisons_sets': nset, 'stats': stats, 'depth_witnesses': obs,
           'small_patterns_total': len(allp), 'small_patterns_this_run': len(pats), 'slice': '%d/%d' % (sl, nslices),
           'exhaustive': tier == 'thorough',
           'rule': ('(a) ALL expressions of size<=3 over atoms {a,b,.,[ab],[^a],^,$,\\<,\\>} with quantifiers {*,+,?,{1,2}}, groups and alternation (%d patterns; this run: slice %d/%d) x all lines over {a,b,space,e-acute} up to length 3 and sampled length 4 x flag combinations; '
                    '(b) %d random ASTs (depth<=4, classes, ranges, bounded repeats) x 14 lines (multi-byte, up to 60 chars); (c) sets of 2-6 patterns for the index clause; (d) depth-limit witnesses; (e) every single-pattern question on a newline-terminated line is asked a second time through rstr_find, the entry point searches, :s and :g use, and must get the set matcher\'s verdict and span. '
                    'non-trivial = engine and reference both found a match with no depth cut and span+groups were compared (agree_match_checked).' % (len(allp), sl, nslices, nrand)),
           'samples': [{'pattern': mr.render(pats[len(pats) // 3]), 'line': 'ab é\n', 'flags': 2},
                       {'pattern': mr.render(jobs[-1][1][0][0]), 'line': jobs[-1][1][0][1][0][0]}]}
    assumptions = ['the reference matcher (AST interpreter, priority-ordered backtracking) defines genuine/leftmost/greedy/left-biased',
                   'cases in which the hook counted a depth cut, or whose pattern iterates an unbounded loop on the empty string, are checked for soundness only',
                   'pattern sets are kept below the engine\'s documented group limit']
    return cov, assumptions
