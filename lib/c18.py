"""C18: bidi reordering is a permutation reversing exactly the opposite-direction runs; shaping.

Monitor over what the probe returns from dir_reorder / dir_context / ren_position / uc_shape /
ren_translate.  Oracles: permutation test, a run-reversal model built from the character classes
CR2L / CNEUT read from conf.h, and Unicode decomposition data (Python's unicodedata) for the
presentation forms and the joining behaviour of letters.
"""
import itertools, os, re, unicodedata
import common, tables
from common import pmap, rng, build, VERIF

PROBE = os.path.join(VERIF, 'probe', 'probe.c')
LATIN = set('abcdefghijklmnopqrstuvwxyzABCDEFGHIJKLMNOPQRSTUVWXYZ0123456789_')
ARLETTERS = set('ءآأؤإئابةتثجحخدذرزسشصضطظعغفقكلمنهوىيپچژکگی')


def model_ctx(s, td, R2L):
    if td > 1:
        return 1
    if td < -1:
        return -1
    if td == 0 and (not s or ord(s[0]) < 128):
        return 1
    if s and s[0] in R2L:
        return -1
    if s and s[0] in LATIN:
        return 1
    return -1 if td < 0 else 1


def model_ord(s, ctx, R2L, NEUT):
    """expected ord[] for a line that contains none of the other configured marks, else None"""
    body = s[:-1] if s.endswith('\n') else s
    if any(c in body for c in '\\$`\''):
        return None
    n = len(body)
    ordv = list(range(len(s)))
    i = 0
    while i < n:
        if ctx > 0:
            if body[i] in R2L:
                j = i
                while j + 1 < n and (body[j + 1] in R2L or body[j + 1] in NEUT):
                    j += 1
                while j > i and body[j] not in R2L:
                    j -= 1
                if j > i:
                    ordv[i:j + 1] = ordv[i:j + 1][::-1]
                    i = j + 1
                    continue
        else:
            if body[i] in LATIN:
                j = i
                while j + 1 < n and body[j + 1] not in R2L:
                    j += 1
                while j > i and body[j] not in LATIN:
                    j -= 1
                if j > i:
                    ordv[i:j + 1] = ordv[i:j + 1][::-1]
                    i = j + 1
                    continue
        i += 1
    return ordv


def long_runs(s, ctx, R2L, NEUT, limit=256):
    """the opposite-direction runs of more than `limit` characters (the matcher's recursion depth), as (first, last) pairs"""
    body = s[:-1] if s.endswith('\n') else s
    n = len(body)
    out = []
    i = 0
    while i < n:
        if ctx > 0 and body[i] in R2L:
            j = i
            while j + 1 < n and (body[j + 1] in R2L or body[j + 1] in NEUT):
                j += 1
            while j > i and body[j] not in R2L:
                j -= 1
        elif ctx <= 0 and body[i] in LATIN:
            j = i
            while j + 1 < n and body[j + 1] not in R2L:
                j += 1
            while j > i and body[j] not in LATIN:
                j -= 1
        else:
            i += 1
            continue
        if j - i + 1 > limit:
            out.append((i, j))
        i = j + 1
    return out


def reversed_in_pieces(ordv, a, b, limit=256):
    """ordv[a..b] is a sequence of consecutive pieces, each of at most `limit` characters and each reversed in place"""
    k = a
    while k <= b:
        q = ordv[k]
        if q < k or q > b or q - k + 1 > limit or any(ordv[k + t] != q - t for t in range(q - k + 1)):
            return False
        k = q + 1
    return True


_MARKS = None


def model_ord_marks(s, ctx):
    """reference for dir_reorder with the configured direction marks (conf.h dirmarks[], parsed at run time): leftmost mark,
    first alternative first; the matched span is reversed when the surrounding direction is right-to-left, the marked
    (sub)span when its own direction is; a sub-group is scanned again in its own direction"""
    global _MARKS
    if _MARKS is None:
        ms = tables.dirmarks()
        if not ms:
            return None
        _MARKS = [(c, d, g, re.compile(p)) for c, d, g, p in ms]
    body = s[:-1] if s.endswith('\n') else s
    ordv = list(range(len(s)))

    def rev(a, b):
        ordv[a:b] = ordv[a:b][::-1]

    def find(beg, end, d):
        text = body[beg:end]
        for i in range(len(text)):
            for mctx, mdir, grp, rx in _MARKS:
                if (mctx >= 0) if d > 0 else (mctx <= 0):
                    m = rx.match(text, i)
                    if m and m.end() > m.start():
                        cb, ce = (m.start(grp), m.end(grp)) if grp and m.start(grp) >= 0 else (m.start(), m.end())
                        return beg + m.start(), beg + m.end(), beg + cb, beg + ce, mdir, grp > 0
        return None

    def fix(d, beg, end, depth=0):
        if depth > 40:
            raise RecursionError
        while beg < end:
            f = find(beg, end, d)
            if f is None:
                break
            rb, re_, cb, ce, cd, rec = f
            if d < 0:
                rev(rb, re_)
            if cd < 0:
                rev(cb, ce)
            if cb == rb:
                cb += 1
            if rec:
                fix(cd, cb, ce, depth + 1)
            beg = re_

    fix(ctx, 0, len(body))
    return ordv


def check_dir(args):
    exe, td, lines, R2L, NEUT = args
    text = 'opts 1 %d 256 1\n' % td + ''.join('dir %s\n' % (l.encode().hex() or '-') for l in lines)
    r = common.run([exe], text.encode(), env=common.base_env('/tmp'), timeout=900)
    out = [l for l in r.out.decode('ascii', 'replace').split('\n') if l][1:]
    bad = []
    nontriv = 0
    modelled = 0
    marked = 0
    for s, o in zip(lines, out):
        f = o.split()
        try:
            n = int(f[0])
            ctx = int(f[2])
            ordv = [int(x) for x in f[4:4 + n]]
            guard = int(f[-1])
        except Exception:
            bad.append(('probe:parse', 'unparsable dir output %r' % o[:60], {'line': s}))
            continue
        wit = {'line': s, 'hex': s.encode().hex(), 'td': td}
        if n != len(s):
            bad.append(('dir:length', 'line %r: n=%d expected %d' % (s, n, len(s)), wit))
            continue
        if guard != -77:
            bad.append(('dir:overrun', 'line %r: dir_reorder wrote past ord[n]' % s, wit))
        if sorted(ordv) != list(range(n)):
            bad.append(('dir:not-permutation', 'line %r td=%d: ord=%s is not a permutation' % (s, td, ordv), wit))
            continue
        if s.endswith('\n') and ordv[n - 1] != n - 1:
            bad.append(('dir:terminator', 'line %r td=%d: terminator not last: %s' % (s, td, ordv), wit))
        ectx = model_ctx(s, td, R2L)
        if ctx != ectx:
            bad.append(('dir:context', 'line %r td=%d: base direction %d expected %d' % (s, td, ctx, ectx), wit))
            continue
        # word-direction laws (independent of which mark matched, so they also cover nested marks):
        # a run of >= 2 Latin word characters reads left-to-right on screen, a run of >= 2 Arabic
        # letters right-to-left (screen order = ord in a left-to-right line, mirrored otherwise)
        lawbad = False
        lspans = long_runs(s, ctx, R2L, NEUT)
        for cls, want, name in ((LATIN - {'_'}, +1, 'latin'), (ARLETTERS, -1, 'arabic')):   # '_' is also a neutral in conf.h
            if name == 'arabic' and ('$' in s or '\\' in s):
                continue        # $...$ and \cmd spans are configured as opaque left-to-right islands
            i = 0
            while i < n:
                if s[i] in cls:
                    j = i
                    while j + 1 < n and s[j + 1] in cls:
                        j += 1
                    if j > i:
                        steps = {(ordv[k + 1] - ordv[k]) * (1 if ctx > 0 else -1) for k in range(i, j)}
                        if steps != {want} and not lawbad and any(a <= i and j <= b for a, b in lspans):
                            pass        # a word across the seam of a run longer than 256: decided below as the recorded finding, or as dir:runs
                        elif steps != {want} and not lawbad:
                            lawbad = True
                            bad.append(('dir:word-direction', 'line %r td=%d ctx=%d: %s run [%d..%d] does not read %s on screen: ord=%s' % (
                                s, td, ctx, name, i, j, 'left-to-right' if want > 0 else 'right-to-left', ordv), wit))
                    i = j + 1
                else:
                    i += 1
        if any(c in s for c in '\\$'):
            marked += 1
        if len(s) <= 120:
            # the full reference, marks included (short lines only: the engine's backtracking depth limit bends long matches)
            try:
                full = model_ord_marks(s, ctx)
            except RecursionError:
                full = None
            if full is not None and ordv != full:
                bad.append(('dir:marks', 'line %r td=%d ctx=%d: ord=%s, the mark-by-mark reference gives %s' % (s, td, ctx, ordv, full), wit))
                continue
        exp = model_ord(s, ctx, R2L, NEUT)
        if exp is None:
            continue
        modelled += 1
        if exp != list(range(n)):
            nontriv += 1
        if ordv != exp:
            # a run longer than the matcher's recursion depth (256) is matched, and so reversed, piecewise: identified as exactly that --
            # everything outside such runs in place, every such run still occupying its own cells -- it is the recorded finding
            spans = long_runs(s, ctx, R2L, NEUT)
            inside = set()
            for a, b in spans:
                inside.update(range(a, b + 1))
            if spans and all(ordv[k] == exp[k] for k in range(n) if k not in inside) and all(reversed_in_pieces(ordv, a, b) for a, b in spans):
                bad.append(('dir:run-longer-than-256-split', 'line of %d characters with a run of %d td=%d ctx=%d: the run is reversed in pieces of at most 256 characters' % (
                    n, max(b - a + 1 for a, b in spans), td, ctx), wit))
                continue
            bad.append(('dir:runs', 'line %r td=%d ctx=%d: ord=%s expected %s' % (s, td, ctx, ordv, exp), wit))
    rep = common.san_report(r)
    if rep:
        idx = len(out)
        bad.append((rep, 'sanitizer/crash in probe dir on line #%d %r td=%d: %s' % (idx, lines[idx] if idx < len(lines) else '?', td, r.err[-500:].decode('latin-1')),
                    {'line': lines[idx] if idx < len(lines) else None, 'td': td}))
    elif len(out) != len(lines):
        bad.append(('probe:truncated', 'dir batch gave %d of %d lines' % (len(out), len(lines)), {}))
    return len(out), modelled, nontriv, bad, marked


def check_layout_order(args):
    """the layout (ren_position) must apply the reordering exactly when the options say so: order=2 always, order=1 only to lines
    with a multi-byte character, order=0 never (lines within the lim limit); then the visual order equals the run-reversal model"""
    import c17
    exe, order, td, lines, R2L, NEUT = args
    text = 'opts %d %d 256 1\n' % (order, td) + ''.join('ren %s\n' % (l.encode().hex() or '-') for l in lines)
    r = common.run([exe], text.encode(), env=common.base_env('/tmp'), timeout=900)
    out = [l for l in r.out.decode('ascii', 'replace').split('\n') if l][1:]
    bad = []
    nontriv = 0
    for s, o in zip(lines, out):
        try:
            g = c17.parse_ren(o)
        except Exception:
            bad.append(('probe:parse', 'unparsable ren output', {'line': s}))
            continue
        n = len(s)
        if g['n'] != n or len(g['pos']) != n + 1:
            continue
        pos = g['pos'][:n]
        vis = sorted(range(n), key=lambda i: (pos[i], i))
        applies = n <= 256 and (order == 2 or (order == 1 and any(ord(c) > 127 for c in s)))     # lim is left at its default of 256 here
        ctx = model_ctx(s, td, R2L)
        exp = model_ord(s, ctx, R2L, NEUT) if applies else list(range(n))
        if exp is None:
            continue
        want = sorted(range(n), key=lambda i: exp[i])
        # zero-width characters share a column with their neighbour: compare the order of the characters that own cells
        if [i for i in vis if i < n] != want and len(set(pos)) == n:
            bad.append(('layout:order', 'line %r order=%d td=%d: characters laid out in the order %s, reordering %s so it should be %s' % (
                s, order, td, vis, 'applies' if applies else 'does not apply', want), {'line': s, 'hex': s.encode().hex(), 'order': order, 'td': td}))
        elif want != list(range(n)):
            nontriv += 1
    rep = common.san_report(r)
    if rep:
        bad.append((rep, 'sanitizer/crash in probe ren (order=%d td=%d): %s' % (order, td, r.err[-400:].decode('latin-1')), {}))
    return len(out), nontriv, bad


# ---- shaping -------------------------------------------------------------------------------
def presentation_forms():
    """letter -> {form: code point} from Unicode decomposition data"""
    forms = {}
    for cp in list(range(0xfb50, 0xfe00)) + list(range(0xfe70, 0xff00)):
        d = unicodedata.decomposition(chr(cp)).split()
        if len(d) == 2 and d[0] in ('<initial>', '<medial>', '<final>', '<isolated>'):
            forms.setdefault(int(d[1], 16), {})[d[0][1:-1]] = cp
    return forms


FORMS = presentation_forms()
TRANSPARENT = set(range(0x64b, 0x656)) | {0x670} | set(range(0xfc5e, 0xfc64))


def jtype(c):
    if c in (0x640, 0x200d):
        return 'C'
    if c == 0x649:           # documented exception: treated as right-joining (Arabic/Persian convention)
        return 'R'
    f = FORMS.get(c)
    if not f:
        return 'U'
    if 'initial' in f or 'medial' in f:
        return 'D'
    if 'final' in f:
        return 'R'
    return 'U'


def model_shape(cps, i):
    """set of acceptable outputs for character i (code points), None meaning 'untouched'"""
    c = cps[i]
    t = jtype(c)
    if t in ('U', 'C'):
        return {None, c}
    prev = next_ = None
    for j in range(i - 1, -1, -1):
        if cps[j] not in TRANSPARENT:
            prev = cps[j]
            break
    for j in range(i + 1, len(cps)):
        if cps[j] not in TRANSPARENT:
            next_ = cps[j]
            break
    jp = prev is not None and jtype(prev) in ('D', 'C')
    jn = t == 'D' and next_ is not None and jtype(next_) in ('D', 'R', 'C')
    f = FORMS.get(c, {})
    if jp and jn:
        return {f.get('medial')}
    if jp:
        return {f.get('final')}
    if jn:
        return {f.get('initial')}
    return {None, c, f.get('isolated')}


def check_shape(args):
    exe, shape, lines, letters = args
    text = 'opts 1 0 256 %d\n' % shape + ''.join('shape %s\n' % (l.encode().hex() or '-') for l in lines)
    r = common.run([exe], text.encode(), env=common.base_env('/tmp'), timeout=900)
    out = [l for l in r.out.decode('ascii', 'replace').split('\n') if l][1:]
    bad = []
    nontriv = 0
    ph = {s: d for s, d, w in (tables.placeholders() or [])}
    for s, o in zip(lines, out):
        f = o.split()
        cps = [ord(c) for c in s]
        if int(f[0]) != len(cps):
            bad.append(('shape:length', 'line %r' % s, {'line': s}))
            continue
        changed = False
        for i, tokn in enumerate(f[1:]):
            sh, tr = tokn.split('/')
            got = None if sh == '~' else ('' if sh == '-' else bytes.fromhex(sh).decode('utf-8', 'replace'))
            wit = {'line': s, 'hex': s.encode().hex(), 'index': i}
            c = cps[i]
            if c in letters or c in (0x640, 0x200c, 0x200d):
                acc = model_shape(cps, i)
                g = None if got is None else (ord(got) if len(got) == 1 else -1)
                if g is not None and g != c:
                    changed = True
                if g not in acc:
                    bad.append(('shape:form', 'line %r char #%d U+%04X shaped to %s, acceptable %s' % (
                        s, i, c, 'unchanged' if g is None else 'U+%04X' % g,
                        sorted('unchanged' if a is None else 'U+%04X' % a for a in acc if a is not None or True)), wit))
            else:
                if got is not None and got != s[i]:
                    bad.append(('shape:alters-other', 'line %r char #%d U+%04X (not a shaped letter) became %r' % (s, i, c, got), wit))
            # ren_translate = placeholder, else the shape (only when the option is on)
            trv = None if tr == '~' else ('' if tr == '-' else bytes.fromhex(tr).decode('utf-8', 'replace'))
            if s[i] in ph:
                if trv != ph[s[i]]:
                    bad.append(('translate:placeholder', 'line %r char #%d: placeholder %r expected %r' % (s, i, trv, ph[s[i]]), wit))
            elif not shape and trv is not None and trv != '\ufffd':
                bad.append(('translate:noshape', 'line %r char #%d translated to %r although shape is off' % (s, i, trv), wit))
        if changed:
            nontriv += 1
    rep = common.san_report(r)
    if rep:
        bad.append((rep, 'sanitizer/crash in probe shape: %s' % r.err[-500:].decode('latin-1'), {}))
    elif len(out) != len(lines):
        bad.append(('probe:truncated', 'shape batch gave %d of %d lines' % (len(out), len(lines)), {}))
    return len(out), nontriv, bad


def run(tier, V):
    exe = build('asan', probe=PROBE)
    R2Ls = tables.conf_macro('CR2L')
    NEUTs = tables.conf_macro('CNEUT')
    cov = {}
    if R2Ls is None or NEUTs is None:
        raise common.HarnessError('cannot read CR2L/CNEUT from conf.h')
    R2L, NEUT = set(R2Ls), set(NEUTs)
    alpha = ['a', '1', ' ', '-', 'ب', 'ا', 'ّ', '‌']
    maxlen = 5 if tier == 'quick' else 6
    base = [''.join(t) for L in range(0, maxlen + 1) for t in itertools.product(alpha, repeat=L)]
    lines = [b + '\n' for b in base] + [b for b in base[:300] if b]
    R = rng('c18', 'lines')
    pool = alpha + ['b', 'Z', '_', 'س', 'ل', 'م', '،', '؟', '.', '(', ')', 'é', '中', '$', '\\', '{', '}', '[', ']', '*', '`', "'", '\t', '‍', 'ـ']
    nrand = 1500 if tier == 'quick' else 20000
    for _ in range(nrand):
        L = R.choice([R.randint(6, 16), R.randint(16, 60), R.randint(250, 262)])
        lines.append(''.join(R.choice(pool) for _ in range(L)) + '\n')
    # runs around and beyond the matcher's recursion depth of 256 (reachable on screen only when the lim option is raised)
    for L in (200, 255, 256, 257, 258, 300, 513, 600):
        lines.append('ab ' + 'ب' * L + ' cd\n')
        lines.append('ab ' + ''.join(R.choice(['سلام', 'من', ' ', '، ', 'ب']) for _ in range(L)).strip(' ،')[:L].rstrip(' ،') + ' cd\n')
        lines.append('ب ' + ''.join(R.choice(['abc', 'x1', ' ', ', ', 'a']) for _ in range(L)).strip(' ,')[:L].rstrip(' ,') + ' ب\n')
    # the configured mark patterns, nested
    words = ['abc', 'de', 'x1_y', 'سلام', 'عربي', 'من', 'ب', 'a', ' ', ' ', '-', '، ', '(', ')']
    for _ in range(600 if tier == 'quick' else 6000):
        inner = ''.join(R.choice(words) for _ in range(R.randint(1, 5)))
        wrap = R.choice(['\\emph{%s}', '\\*[%s]', '\\x{%s}', '$%s$', '\\f%s', '%s'])
        pre = ''.join(R.choice(words) for _ in range(R.randint(0, 3)))
        post = ''.join(R.choice(words) for _ in range(R.randint(0, 3)))
        if R.random() < 0.3:
            inner += R.choice(['سلام', 'عربي'])
            post = R.choice([' ', '، ', ', ', ') ']) + R.choice(['سلام', 'عربي', 'من']) + post
        lines.append(pre + (wrap % inner) + post + '\n')
    for m in ['\\emph{سلام} علیکم x', 'ab \\emph{عربي من} سلام, x', '\\emph{abc سلام}، عربي', '\\emph{سلام}, عربي من', 'x \\textbf{من} (سلام) y', '\\*[ab ب]', '$x ب y$', '\\emph{ab سلام cd}', 'سلام \\emph{abc عربي def} x', 'ب $a+b$ ب', '\\x{ب}', 'سلام \\foo bar']:
        lines.append(m + '\n')
        lines.append('ب ' + m + ' ا\n')
    jobs = []
    for td in (-2, -1, 0, 1, 2):
        for i in range(0, len(lines), 2000):
            jobs.append((exe, td, lines[i:i + 2000], R2L, NEUT))
    res = pmap(check_dir, jobs, procs=True)
    nd = sum(r[0] for r in res)
    nmod = sum(r[1] for r in res)
    nontriv = sum(r[2] for r in res)
    nmarked = sum(r[4] for r in res)
    for r in res:
        for key, what, wit in r[3]:
            V.violation(key, what, wit)
    # the same through ren_position (order 0/1/2, lim): permutation => tiling (C17 laws cover it); here only ASan + not-reordered clause
    import c17
    W = c17.Widths()
    sub = lines[::7]
    jobs = [(exe, (o, td, lim), sub[i:i + 800], W) for o in (1, 2) for td in (-2, 0, 1) for lim in (3, 256) for i in range(0, len(sub), 800)]
    res = pmap(c17.check_lines, jobs, procs=True)
    nren = sum(r[0] for r in res)
    for r in res:
        for key, what, wit in r[2]:
            V.violation('ren:' + key, what, wit)
    # layout agrees with the reordering and with the option that switches it on
    sub2 = lines[::5] + ['abc def, (x)\n', 'ab 12\n', 'x\n', 'a(b)c\n', 'ab\tcd\n']
    jobs = [(exe, o, td, sub2[i:i + 1500], R2L, NEUT) for o in (0, 1, 2) for td in (-2, -1, 0, 1, 2) for i in range(0, len(sub2), 1500)]
    res = pmap(check_layout_order, jobs, procs=True)
    nlay = sum(r[0] for r in res)
    nontriv += sum(r[1] for r in res)
    for r in res:
        for key, what, wit in r[2]:
            V.violation(key, what, wit)
    cov['layout_order_checks'] = nlay
    # shaping
    ach = tables.achars()
    if ach is None:
        raise common.HarnessError('cannot parse achars[] from uc.c')
    letters = {a[0] for a in ach if 0x600 <= a[0] < 0x700 and a[0] != 0x640}
    ctxs_prev = ['', 'ب', 'ا', 'ـ', '‍', '‌', 'a', ' ']
    ctxs_next = ['', 'ب', 'ا', 'ـ', '‍', '‌', 'a', ' ', '\n']
    dia = ['', 'ّ', 'َّ']
    slines = []
    for c in sorted(letters):
        for p in ctxs_prev:
            for nx in ctxs_next:
                for d1 in dia:
                    for d2 in (dia if tier == 'thorough' else dia[:2]):
                        slines.append(p + d1 + chr(c) + d2 + nx)
    # every transparent mark on its own (U+064B..U+0655, U+0670, the shadda ligatures), between, before and after joining letters
    for m in sorted(TRANSPARENT):
        for c in sorted(letters):
            for p, nx in (('ب', 'ب'), ('ب', ''), ('', 'ب'), ('ب', 'ا'), ('ا', 'ب')):
                slines.append(p + chr(c) + chr(m) + nx)
                slines.append(p + chr(m) + chr(c) + nx)
    for _ in range(400 if tier == 'quick' else 5000):
        slines.append(''.join(R.choice([chr(x) for x in sorted(letters)] + ['ّ', 'َ', '‌', '‍', 'ـ', ' ', 'a', '1', 'é', 'ﺑ', '؟']) for _ in range(R.randint(1, 12))))
    jobs = [(exe, sh, slines[i:i + 3000], letters) for sh in (1, 0) for i in range(0, len(slines), 3000)]
    res = pmap(check_shape, jobs, procs=True)
    ns = sum(r[0] for r in res)
    nshaped = sum(r[1] for r in res)
    for r in res:
        for key, what, wit in r[2]:
            V.violation(key, what, wit)
    cov.update({'dir_calls': nd, 'dir_lines_with_run_model': nmod, 'lines_with_reversed_runs': nontriv, 'lines_with_mark_patterns': nmarked, 'ren_position_calls': nren,
                'shape_lines': ns, 'shape_lines_changed': nshaped, 'letters_in_table': len(letters)})
    # the real binary: l / h / N| on lines with right-to-left runs and contexts, also after a prompt that was opened and cancelled
    # (what the user sees of the reordering: the same monitor as C17's binary part, run here for the reordering property)
    import c17bin
    bcov = c17bin.run(tier, V)
    cov['binary_runs'] = bcov.get('binary_runs', 0)
    cov['binary_runs_with_reversed_runs'] = bcov.get('binary_nontrivial', 0)
    cov['evaluations'] = nd + nren + ns
    cov['distinct_nontrivial'] = nontriv + nshaped
    cov['exhaustive'] = True
    cov['rule'] = ('dir_reorder on ALL lines up to length %d over {a,1,space,-,beh,alef,shadda,ZWNJ} (+%d random longer mixes incl. mark patterns, lines around lim, and runs of 200-600 characters around the depth limit of the matcher (256): longer ones are the recorded finding) x td -2..2: permutation, '
                   'terminator last, guard cell untouched, base direction, run-reversal model; the same lines through ren_position for order 1/2, lim 3/256; every table letter x 8 previous x 9 next '
                   'contexts x diacritics x shape on/off against Unicode decomposition data; the real binary moves by l/h/N| over such lines (also after cancelled prompts).  non-trivial = a line in which the model reverses a run / a line in which a letter was reshaped.' % (maxlen, nrand))
    cov['samples'] = [{'line': 'a بب1 ا-ب c\n', 'td': 0}, {'line': lines[-3], 'td': -1}, {'shape_line': slines[777 % len(slines)]}]
    assumptions = ['CR2L/CNEUT from conf.h define right-to-left and neutral characters; lines containing \\ $ ` \' (other configured marks) are checked for the permutation/terminator clauses only',
                   'joining behaviour derived from Unicode presentation-form decompositions; U+0649 treated as right-joining (documented exception)',
                   'isolated context: unchanged letter or its isolated presentation form are both acceptable']
    return cov, assumptions
