"""C02: unsaved changes are never silently discarded on quit, edit or buffer switch.

History monitor, fully black box: for a history h and every prefix k, the real binary runs the
prefix followed by a probe (buffer list, dump of every open buffer, then an attempt to quit / :e /
:b without '!').  Oracle (a): if the dumped text of any open buffer differs from what is on disk
now, the attempt must be refused, the buffer must be starred, nothing may be lost.  Oracle (b):
a small undo-position model (pos, saved_pos) says when the editor must be clean again.
"""
import os, re
import common, gen
from common import pmap, rng, build

S = lambda k: b'\x01\x02S%d\x03' % k
NF = 4


def make_history(R, nfiles):
    """list of (bytes command, tag)"""
    ops = []
    n = R.randint(3, 14)
    for _ in range(n):
        k = R.random()
        if k < 0.10:
            # several commands on one line: a write between edits, edits after a write
            one = [b'1s/^/x/', b'$s/$/y/', b'1d', b'1y|$pu', b'%s/a/b/g', b'w', b'w', b'w!', b'u', b'1,1w! other']
            ops.append((b'|'.join(R.choice(one) for _ in range(R.randint(2, 4))), 'compound'))
        elif k < 0.30:
            c = R.choice([b'1s/^/x/', b'$s/$/y/', b'1d', b'$d', b'1,2d', b'$a\nnew line\n.', b'1i\ntop\n.', b'1c\nchanged\n.', b'1,$!sort', b'1y|$pu', b'g/x/s/x/z/', b'%s/a/b/g'])
            ops.append((c, 'mod'))
        elif k < 0.45:
            ops.append((b'u', 'undo'))
        elif k < 0.55:
            ops.append((b'redo', 'redo'))
        elif k < 0.68:
            ops.append((R.choice([b'w', b'w', b'w!']), 'write'))
        elif k < 0.73:
            ops.append((R.choice([b'1,1w', b'1,1w!', b'2,$w!']), 'partial-own'))
        elif k < 0.80:
            ops.append((R.choice([b'w! other', b'1,1w! other', b'w other2']), 'write-other'))
        elif k < 0.85:
            ops.append((R.choice([b'e!', b'e!', b'e! +1s/^/R/', b'e! +$d', b'rx z empty %\ne!', b'rx z empty %\ne!']), 'reload'))     # (the file emptied behind the editor and read again at once)
        elif k < 0.95:
            j = R.randint(1, nfiles)
            ops.append((R.choice([b'e f%d', b'e! f%d', b'e! f%d', b'e +1s/^/P/ f%d', b'e! +1d f%d', b'e +2 f%d', b'e! +$s/$/Q/ f%d']) % j, 'edit'))
        else:
            ops.append((R.choice([b'e #', b'b 1', b'b 2', b'b +', b'b -']), 'switch'))
    return ops


def initial_files(R, nfiles):
    files = {}
    for i in range(1, nfiles + 1):
        files['f%d' % i] = b''.join(b'%c line %d of f%d\n' % (97 + (i + j) % 3, j, i) for j in range(R.randint(2, 6)))
    return files


def parse_blist(b):
    # entries are printed back to back as "%2i %c %s %c"; paths used by the workloads are f<N>
    b = re.sub(rb'\x1b\[[0-9;]*[A-Za-z]|\r', b'', b)
    return [(int(m.group(1)), m.group(2).decode(), m.group(3).decode(), m.group(4) == b'*')
            for m in re.finditer(rb'(\d+) ([%#^ ]) (f\d+) ([* ])', b)]


def probe(vi, files, prefix, nfiles, attempt):
    script = b''.join(c + b'\n' for c, _ in prefix)
    script += b'ec ' + S(0) + b'\nb\nec ' + S(1) + b'\n'
    cur_first = b''      # dump the current buffer first, others after, finally return to the current one
    script += b'w! dump_cur\n'
    for i in range(1, nfiles + 1):
        script += b'e! f%d\nw! dump_%d\n' % (i, i)
    script += b'ec ' + S(2) + b'\nb\nec ' + S(3) + b'\n'
    script += attempt + b'\nec ' + S(4) + b'\nb\nec ' + S(5) + b'\n'
    r, d = common.run_ex(vi, script, files=dict(files), timeout=30)
    out = r.out
    disk = {('f%d' % i): common.readf(d, 'f%d' % i) for i in range(1, nfiles + 1)}
    dumps = {('f%d' % i): common.readf(d, 'dump_%d' % i) for i in range(1, nfiles + 1)}
    common.rmcase(d)
    return r, out, disk, dumps


def seg(out, a, b):
    if S(a) not in out:
        return None
    s = out.split(S(a), 1)[1]
    if S(b) not in s:
        return None
    return s.split(S(b), 1)[0]


def model_positions(prefix, opened_initial='f1'):
    """direction (b): returns True if the model is certain that every open buffer is at its saved
    position, False if certainly some buffer is away from it, None if unknown."""
    bufs = {opened_initial: {'pos': 0, 'saved': 0, 'top': 0}}
    cur = opened_initial
    alt = None
    for c, tag in prefix:
        b = bufs[cur]
        if tag == 'mod':
            return None if True else None      # whether the text really changed is not known to the model
        if tag == 'undo':
            if b['pos'] > 0:
                b['pos'] -= 1
        elif tag == 'redo':
            if b['pos'] < b['top']:
                b['pos'] += 1
        elif tag == 'write':
            b['saved'] = b['pos']
        else:
            return None
    return all(x['pos'] == x['saved'] for x in bufs.values())


def run_history(args):
    vi, idx = args
    R = rng('c02', idx)
    nfiles = R.choice([2, 3, NF])
    files = initial_files(R, nfiles)
    hist = make_history(R, nfiles)
    bad = []
    checks = 0
    dirty_prefixes = 0
    for k in range(1, len(hist) + 1):
        prefix = hist[:k]
        attempt = R.choice([b'q', b'q', b'e f%d' % R.randint(1, nfiles), b'b 1', b'b 2', b'wq elsewhere', b'x elsewhere', b'1,1wq elsewhere'])      # (written somewhere else is not saved)
        r, out, disk, dumps = probe(vi, files, prefix, nfiles, attempt)
        wit = {'index': idx, 'files': files, 'prefix': [c for c, _ in prefix], 'attempt': attempt}
        if r.timed_out or common.san_report(r) or seg(out, 0, 1) is None or seg(out, 2, 3) is None:
            return bad, checks, dirty_prefixes, 'inconclusive'
        l0 = parse_blist(seg(out, 0, 1))
        l1 = parse_blist(seg(out, 2, 3))
        open_before = {p for _, _, p, _ in l0}
        star1 = {p: st for _, _, p, st in l1}
        # only buffers that were open before the probe matter; the probe itself opened the rest (clean)
        differs = {p for p in open_before if p in dumps and (dumps[p] or b'') != (disk[p] or b'')}
        checks += 1
        cur_after_dumps = [p for _, a, p, _ in l1 if a == '%']
        if differs:
            dirty_prefixes += 1
            for p in sorted(differs):
                if not star1.get(p):
                    bad.append(('clean-flag-while-different', 'after %s: buffer %s differs from its file (text %r, disk %r) but the list shows it unmodified' % (
                        [c.decode() for c, _ in prefix], p, common.show(dumps[p] or b'', 60), common.show(disk[p] or b'', 60)), wit))
                    return bad, checks, dirty_prefixes, None
            alive = S(4) in out.split(S(3), 1)[1] if S(3) in out else False
            l2 = parse_blist(seg(out, 4, 5) or b'')
            cur2 = [p for _, a, p, _ in l2 if a == '%']
            if attempt.startswith(b'q') or b'elsewhere' in attempt:
                if not alive:
                    bad.append(('quit-discards', 'after %s: :%s exited although %s differ(s) from disk' % ([c.decode() for c, _ in prefix], attempt.decode(), sorted(differs)), wit))
                    return bad, checks, dirty_prefixes, None
                if cur2 and cur2[0] not in differs and not dict((p, st) for _, _, p, st in l2).get(cur2[0]):
                    bad.append(('quit-not-on-dirty-buffer', 'after refused :q the current buffer %s is not a dirty one (%s)' % (cur2, sorted(differs)), wit))
            else:
                # :e / :b without ! from a dirty current buffer must be refused (current buffer unchanged)
                if cur_after_dumps and cur_after_dumps[0] in differs:
                    if not alive or (cur2 and cur2[0] != cur_after_dumps[0]):
                        target_same = attempt.split()[-1].decode() == cur_after_dumps[0]
                        if not target_same:
                            bad.append(('switch-from-dirty', 'after %s: "%s" left the dirty buffer %s (now %s)' % ([c.decode() for c, _ in prefix], attempt.decode(), cur_after_dumps[0], cur2), wit))
                            return bad, checks, dirty_prefixes, None
        else:
            # direction (b): the position model says every buffer is at its saved point
            m = model_positions(prefix)
            if m is True and any(star1.get(p) for p in open_before):
                bad.append(('dirty-at-saved-position', 'after %s: undo/redo returned to the saved position but a buffer is flagged modified' % [c.decode() for c, _ in prefix], wit))
                return bad, checks, dirty_prefixes, None
    return bad, checks, dirty_prefixes, None


def saved_position_walks(vi, R, n):
    """direction (b) with observed texts: edit^a, w, then undo/redo walks; whenever the observed text
    equals the text at the save AND the walk is at the same history position, :q must succeed."""
    res = []
    for i in range(n):
        a = R.randint(1, 4)
        edits = [b'%ds/^/%c/' % (R.randint(1, 2), 65 + j) for j in range(a)]
        walk = [R.choice([b'u', b'redo']) for _ in range(R.randint(1, 8))]
        extra = R.randint(0, 2)
        more = [b'$s/$/%c/' % (97 + j) for j in range(extra)]
        pos = a
        top = a + extra
        saved = a
        steps = edits + [b'w'] + more
        pos = top
        for w in walk:
            if w == b'u' and pos > 0:
                pos -= 1
            elif w == b'redo' and pos < top:
                pos += 1
        script = b''.join(s + b'\n' for s in steps + walk) + b'ec ' + S(0) + b'\nb\nec ' + S(1) + b'\nq\nec ' + S(2) + b'\n'
        r, d = common.run_ex(vi, script, files={'f1': b'one\ntwo\nthree\n'}, timeout=30)
        common.rmcase(d)
        lst = parse_blist(seg(r.out, 0, 1) or b'')
        starred = any(st for _, _, _, st in lst)
        alive = S(2) in r.out
        wit = {'steps': steps + walk}
        if pos == saved:
            if starred or alive:
                res.append(('dirty-at-saved-position', 'steps %s: history position equals the saved one but %s' % ([s.decode() for s in steps + walk], 'the buffer is starred' if starred else ':q is refused'), wit))
        else:
            if not starred or not alive:
                res.append(('clean-away-from-saved-position', 'steps %s: history position %d != saved %d but %s' % ([s.decode() for s in steps + walk], pos, saved, 'no star' if not starred else ':q exited'), wit))
    return res


def lru_scenario(vi):
    """17 paths: the least-recently-used buffer is dirty when its slot is needed"""
    files = {('f%d' % i): b'file %d\n' % i for i in range(1, 18)}
    script = b'1s/^/DIRTY /\n' + b''.join(b'e! f%d\n' % i for i in range(2, 17)) + b'ec ' + S(0) + b'\ne f17\nec ' + S(1) + b'\nb\nec ' + S(2) + b'\nq\nec ' + S(3) + b'\n'
    r, d = common.run_ex(vi, script, files=files, timeout=30)
    common.rmcase(d)
    lst = parse_blist(seg(r.out, 1, 2) or b'')
    paths = {p for _, _, p, _ in lst}
    alive = S(3) in r.out
    if 'f1' not in paths and not alive:
        return [('lru-eviction-discards', 'dirty f1, then :e! f2 .. :e! f16, :e f17: the 17th path evicts the least recently used buffer (f1, modified) without any check and :q then succeeds', {'script': script})]
    return []


def full_table_scenario(args):
    """all 16 slots in use; a random subset is dirty; visiting order random (so dirty buffers end up anywhere in the MRU table)"""
    vi, idx = args
    R = rng('c02', 'full', idx)
    nf = R.choice([16, 16, 15, 12])
    files = {('f%d' % i): b'file %d\nsecond\n' % i for i in range(1, nf + 1)}
    order = list(range(2, nf + 1))
    R.shuffle(order)
    dirty = set(R.sample(range(1, nf + 1), R.choice([1, 1, 2])))
    script = b''
    if 1 in dirty:
        script += b'1s/^/D /\n'
    for i in order:
        script += b'e! f%d\n' % i
        if i in dirty:
            script += b'1s/^/D /\n'
    for _ in range(R.randint(0, 6)):       # revisit some clean ones to shuffle the table
        j = R.choice([i for i in range(1, nf + 1) if i not in dirty])
        script += b'e! f%d\n' % j
    quit_cmd = R.choice([b'q', b'q', b'x', b'wq'])
    if quit_cmd != b'q':
        # the current buffer is clean; x / wq write it (if needed) and must then still refuse
        pass
    script += b'ec ' + S(0) + b'\nb\nec ' + S(1) + b'\n' + quit_cmd + b'\nec ' + S(2) + b'\nb\nec ' + S(3) + b'\n'
    r, d = common.run_ex(vi, script, files=files, timeout=30)
    common.rmcase(d)
    wit = {'index': idx, 'nfiles': nf, 'dirty': sorted(dirty), 'script': script}
    lst = parse_blist(seg(r.out, 0, 1) or b'')
    if len(lst) != nf:
        return [('harness:list', 'expected %d buffers in the list, got %d' % (nf, len(lst)), wit)] if lst else []
    bad = []
    star = {p for _, _, p, st in lst if st}
    want = {'f%d' % i for i in dirty}
    if star != want:
        bad.append(('clean-flag-while-different', '%d buffers open, modified %s but starred %s' % (nf, sorted(want), sorted(star)), wit))
    cur0 = [p for _, a, p, _ in lst if a == '%']
    remaining = want - set(cur0) if quit_cmd != b'q' else want      # :x / :wq save the current buffer first
    if not remaining:
        if S(2) in r.out:
            bad.append(('quit-refused-when-clean', ':%s refused although the only modified buffer was the current one (just written)' % quit_cmd.decode(), wit))
        return bad
    want = remaining
    if S(2) not in r.out:
        bad.append(('quit-discards', '%d buffers open, %s modified (slots %s): :%s exited' % (nf, sorted(want), [k for k, (_, _, p, _) in enumerate(lst) if p in want], quit_cmd.decode()), wit))
    else:
        l2 = parse_blist(seg(r.out, 2, 3) or b'')
        cur = [p for _, a, p, _ in l2 if a == '%']
        if cur and cur[0] not in want:
            bad.append(('quit-not-on-dirty-buffer', 'after the refused quit the current buffer is %s, modified ones are %s' % (cur[0], sorted(want)), wit))
    return bad


def unnamed_scenario(args):
    """the editor starts without a file name; text is appended and then written somewhere (a file, part of it, or a pipe).
    Quitting or leaving the buffer may only succeed when the text is safe: for a buffer that has got a name by being written,
    when that file holds exactly the text; for a buffer still without a name, when it is empty or some file holds its text
    (the text is observed with 1,$p, which unlike :w cannot give the buffer a name)."""
    vi, idx = args
    R = rng('c02', 'unnamed', idx)
    text = b''.join(b'line %d %c\n' % (j, 97 + R.randint(0, 25)) for j in range(R.randint(1, 5)))
    acts = [R.choice([b'w !cat', b'w !true', b'1,1w !cat', b'w! !cat', b'w nf1', b'1,1w nf2', b'w! nf1', b'1,$w nf3', b'w', b'f', b'1s/^/z/', b'u', b'u', b'1,1w! nf1', b'w nf1\n1s/$/ more/'])
            for _ in range(R.randint(1, 4))]
    leave = R.random() < 0.3        # the buffer is left behind (forced) before the quit attempt: it still counts
    quit_cmd = R.choice([b'q', b'q', b'x', b'wq', b'xa', b'xa'] if leave else [b'q', b'q', b'x', b'wq', b'e f1', b'e nf1'])
    script = b'a\n' + text + b'.\n' + b''.join(a + b'\n' for a in acts) + b'ec ' + S(4) + b'\nb\nec ' + S(5) + b'\nec ' + S(0) + b'\n1,$p\nec ' + S(1) + b'\n' + (b'e! f1\n' if leave else b'') + quit_cmd + b'\nec ' + S(2) + b'\n1,$p\nec ' + S(3) + b'\n'
    r, d = common.run_ex(vi, script, files={'f1': b'other file\n'}, timeout=30, args=[])
    disk = {x: common.readf(d, x) for x in os.listdir(d) if x != 'f1' and not x.startswith('.') and os.path.isfile(os.path.join(d, x))}
    common.rmcase(d)
    wit = {'index': idx, 'script': script}
    cur = seg(r.out, 0, 1)
    if r.timed_out or common.san_report(r) or cur is None:
        return None, wit
    lst = re.sub(rb'\x1b\[[0-9;]*[A-Za-z]|\r', b'', seg(r.out, 4, 5) or b'')
    m = re.search(rb'\d+ % ([^ ]*) [* ]', lst)
    if not m:
        return None, wit
    adopted = m.group(1).decode() or None          # (the first successful write to a file gives the buffer that file's name)
    if adopted:
        held = disk.get(adopted) == cur
    else:
        held = cur == b'' or any(v == cur for v in disk.values())
    alive = S(2) in r.out
    after = seg(r.out, 2, 3)
    what = 'unnamed buffer, %s%s then :%s' % ([a.decode() for a in acts], ', :e! f1' if leave else '', quit_cmd.decode())
    if held:
        return 'ok-trivial', wit
    if not alive:
        return ('quit-discards', '%s: the editor exited although %s (files: %s)' % (what, 'its file %s does not hold the text %r' % (adopted, common.show(cur, 60)) if adopted else 'no file holds the text %r' % common.show(cur, 60), sorted(disk))), wit
    if not leave and after is not None and after != cur:
        return ('switch-from-dirty', '%s: the buffer was left although its text %r is not safe' % (what, common.show(cur, 60))), wit
    return 'ok', wit


def vi_unnamed_scenario(args):
    """vi without a file name: text typed into the unnamed buffer, window commands (each redraw of another window switches
    buffers internally), then :q / ZZ: the editor must still be there and still hold the text"""
    vi, idx = args
    R = rng('c02', 'viun', idx)
    text = ''.join(R.choice(['hello', 'x', 'été', ' ', 'World']) for _ in range(R.randint(1, 4))) or 'x'
    keys = 'i' + text + '\x1b'
    keys += ''.join(R.choice(['\x17s', '\x17s', '\x17j', '\x17k', '\x17o', '\x17c', '\x17x', 'j', ':e /\n']) for _ in range(R.randint(1, 5)))
    quit_keys = R.choice([':q\n', ':q\n', 'ZZ', ':x\n'])
    keys += quit_keys + ':w! sentinel\n'
    r, d = common.run_vi(vi, keys.encode(), files={'f1': b'other\n'}, args=[], timeout=30)
    got = common.readf(d, 'sentinel')
    common.rmcase(d)
    wit = {'index': idx, 'keys': keys}
    if r.timed_out or common.san_report(r):
        return None, wit
    if got is None:
        return ('quit-discards', 'vi, unnamed buffer with the text %r, keys %s: the editor exited (nothing was written after the quit attempt)' % (text, common.show(keys.encode(), 80))), wit
    if got != (text + '\n').encode():
        return ('switch-from-dirty', 'vi, unnamed buffer with the text %r, keys %s: afterwards the current buffer holds %r' % (text, common.show(keys.encode(), 80), common.show(got, 60))), wit
    return 'ok', wit


def failed_write_scenario(args):
    """a save that goes wrong part-way (fault shim of C03: the n-th open/write/close of the save fails, also after a short count):
    whatever the editor reports, while the file differs from the text the buffer is starred and :q / :e are refused"""
    import c03
    vi, so, idx = args
    R = rng('c02fw', idx)
    bname, content, edit, want = R.choice(c03.buffers()[1:])
    err = R.choice(['ENOSPC', 'EIO', 'EDQUOT', 'EFBIG'])
    k = R.randint(1, 3)
    fault = R.choice(['write:%d:%s' % (k, err), 'write:%d:shorthalf,write:%d:%s' % (k, k + 1, err), 'write:%d:short1,write:%d:%s' % (k, k + 1, err),
                      'write:%d:shortallbut1,write:%d:%s' % (k, k + 1, err), 'close:1:%s' % err, 'open:1:EACCES', 'write:99:EIO', 'write:99:EIO'])      # (the last: no fault at all)
    cmd = R.choice([b'w', b'w', b'w!', b'wq', b'x', b'w|q', b'xa'])
    attempt = R.choice([b'q', b'q', b'e f2', b'b 1', b'wq elsewhere', b'x elsewhere'])
    script = edit + cmd + b'\nec ' + S(0) + b'\nb\nec ' + S(1) + b'\n' + attempt + b'\nec ' + S(2) + b'\nb\nec ' + S(3) + b'\n'
    r, d, lg = c03.run_ex(vi, so, script + b'q!\n', {'f1': content, 'f2': b'two\n'}, fault)
    disk = common.readf(d, 'f1')
    common.rmcase(d)
    wit = {'index': idx, 'buffer': bname, 'command': cmd.decode(), 'fault': fault, 'attempt': attempt.decode()}
    if r.timed_out:
        return None, wit
    if disk == want:
        return 'saved', wit
    # (whether or not the planned fault came to pass: the file does not hold the text, so nothing may claim it does)
    if S(0) not in r.out:
        return ('failed-save-exits', 'buffer %s, %s with fault %s: the file holds %d bytes, the text %d, and the editor exited' % (bname, cmd.decode(), fault, len(disk or b''), len(want)), ), wit
    l0 = parse_blist(seg(r.out, 0, 1) or b'')
    if not any(st for _, a, pth, st in l0 if pth == 'f1'):
        return ('clean-flag-after-failed-save', 'buffer %s, %s with fault %s: the file holds %d bytes, the text %d, and the buffer is listed as unmodified' % (bname, cmd.decode(), fault, len(disk or b''), len(want)), ), wit
    if S(2) not in r.out:
        return ('quit-after-failed-save', 'buffer %s, %s with fault %s: :%s after the failed save exited' % (bname, cmd.decode(), fault, attempt.decode()), ), wit
    l1 = parse_blist(seg(r.out, 2, 3) or b'')
    if [pth for _, a, pth, _ in l1 if a == '%'] != ['f1']:
        return ('switch-after-failed-save', 'buffer %s, %s with fault %s: :%s left the unsaved buffer: %s' % (bname, cmd.decode(), fault, attempt.decode(), l1), ), wit
    return 'refused', wit


def run(tier, V):
    vi = build('plain')
    n = 400 if tier == 'quick' else 4000
    base = common.seed() * 7919
    res = pmap(run_history, [(vi, base + i) for i in range(n)])
    checks = sum(r[1] for r in res)
    dirty = sum(r[2] for r in res)
    for bad, _, _, st in res:
        if st == 'inconclusive':
            V.inconclusive += 1
        for key, what, wit in bad:
            V.violation(key, what, wit)
    R = rng('c02', 'walks')
    nw = 200 if tier == 'quick' else 2000
    wres = saved_position_walks(vi, R, nw)
    for key, what, wit in wres:
        V.violation(key, what, wit)
    for key, what, wit in lru_scenario(vi):
        V.violation(key, what, wit)
    nfull = 60 if tier == 'quick' else 600
    for bad in pmap(full_table_scenario, [(vi, base + i) for i in range(nfull)]):
        for key, what, wit in bad:
            V.violation(key, what, wit)
    nun = 300 if tier == 'quick' else 3000
    un_ok = 0
    for res_u, wit in pmap(unnamed_scenario, [(vi, base + i) for i in range(nun)]):
        if res_u is None:
            V.inconclusive += 1
        elif isinstance(res_u, tuple):
            V.violation(res_u[0], res_u[1], wit)
        elif res_u == 'ok':
            un_ok += 1
    nvu = 150 if tier == 'quick' else 2000
    for res_u, wit in pmap(vi_unnamed_scenario, [(vi, base + i) for i in range(nvu)]):
        if res_u is None:
            V.inconclusive += 1
        elif isinstance(res_u, tuple):
            V.violation(res_u[0], res_u[1], wit)
        else:
            un_ok += 1
    nun += nvu
    import c03
    so = c03.build_shim()
    nfw = 200 if tier == 'quick' else 2000
    fw = {}
    for res_u, wit in pmap(failed_write_scenario, [(vi, so, base + i) for i in range(nfw)]):
        if res_u is None:
            V.inconclusive += 1
        elif isinstance(res_u, tuple):
            V.violation(res_u[0], res_u[1], wit)
        else:
            fw[res_u] = fw.get(res_u, 0) + 1
    cov = {'evaluations': checks + nw + 1 + nfull + nun + nfw, 'failed_save_scenarios': fw, 'unnamed_buffer_scenarios': nun, 'unnamed_refusals_or_saves_observed': un_ok, 'distinct_nontrivial': dirty + nw + nfull, 'full_table_scenarios': nfull, 'histories': n, 'prefix_probes': checks, 'probes_with_a_dirty_buffer': dirty, 'saved_position_walks': nw,
           'rule': ('%d random histories (modify, u, redo, w, w!, partial own-path writes, writes to other paths, e!, e, e!, e +cmd / e! +cmd with commands that edit, e #, b N/+/-, several commands on one line) over 2-4 files; EVERY prefix is run in a fresh process followed by a probe '
                    '(list, dump of every open buffer, attempt :q / :e / :b without ! or :wq / :x to another path, list).  oracle: dumped text vs the file now on disk.  + %d edit/save/undo/redo walks with a position model (both directions) + the 17-path LRU scenario + scenarios with 12-16 buffers open, dirty ones anywhere in the MRU table, then :q/:x/:wq + scenarios that start without a file name and write to pipes, parts, new names before :q/:x/:wq/:e, or (vi) split and switch windows first + saves made to fail part-way by the fault shim (error after a short count, at close, at open) followed by :q / :e / :b. '
                    'non-trivial = a probe in which some open buffer differed from its file (the refusal path was exercised), or a walk.' % (n, nw)),
           'samples': [{'prefix': [c.decode() for c, _ in make_history(rng('c02', base), 3)][:8]}]}
    assumptions = ['no foreign writer: "content when last read or written" is what is on disk when the probe runs', 'aw/wa options off',
                   ':e! of an open path only switches (used by the probe to visit buffers without changing them)', ':e! on a non-existent path is left out (statement speaks of content when last read)']
    return cov, assumptions


def REPLAY(w):
    return run_history((build('plain'), w['index']))[0] if 'prefix' in w else 'scenario witness: see script'
