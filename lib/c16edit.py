"""C16 part 4: character-wise editing programs over multi-byte buffers never produce invalid UTF-8.

Validity oracle only (Python's strict UTF-8 decoder) on the file written by the real binary after
random vi programs and ex substitutions over buffers with 2-, 3- and 4-byte characters, combining
marks and right-to-left text.
"""
import common, gen
from common import pmap, rng, build

EXCMDS = ['s/é*/X/', 's/é+/X/g', 's/ï?v/Y/', 's/中{2}/Z/', 's/aé*/X/', 's/ü*n/N/g', 's/[é]*t/T/', 's/./x/', 's/.$//', 's/^.//', 's/x*/-/g', 's/[^a]/_/g', 's/\\(/(/', 's/é/e/g', 's/./&&/g', 's/(.)(.)/\\2\\1/g', 's/.\\>//', 's/\\<./X/g', '1,$s/..$/é/', 'g/./s/.//', '%s/$/é/', 'd', 'y|pu', 's/a/\\é/', 's/./\\中&/g', 's/x*/\\😀/g', 's/o/\\ب\\é/', '&', 's', 's//\\é&/']      # (an escaped multi-byte character in the replacement; the remembered replacement used again)


def run_case(args):
    vi, idx = args
    R = rng('c16e', idx)
    lines = gen.rand_buffer(R, 'mixed', 8, allow_empty=False)
    keys = R.choice(['', '', ':se noic\n'])
    for _ in range(R.randint(2, 12)):
        k = R.random()
        if k < 0.25:
            keys += gen.vi_motion(R, 'aoé中ب x.')
        elif k < 0.8:
            ks, cls = gen.vi_edit(R, 'mixed', chars='aoé中ب x.', filters=False)
            if cls == 'ex':
                ks = ':' + R.choice(EXCMDS) + '\n'
            keys += ks
        else:
            keys += ':' + R.choice(EXCMDS) + '\n'
    if R.random() < 0.12:
        # prompt-line editing with multi-byte text: long command lines, backspace / word delete, and history completion (^A)
        # of an earlier line that is longer than the 64-byte completion buffer
        mb = lambda n: ''.join(R.choice(['é', '中', '😀', 'ب', 'a', ' ', 'ü', '日本']) for _ in range(n))
        keys = ':se hist=%d\n' % R.choice([1, 5, 50])
        for _ in range(R.randint(1, 3)):
            pre = R.choice([':s/x/', ':s/a/', ':ec ', ':%s/o/', ':g/a/s/$/'])
            body = mb(R.choice([10, 25, 30, 31, 32, 40, 62, 63, 64, 70, 120]))
            edit = R.choice(['', '', '\x08' * R.randint(1, 5), '\x17', '\x08\x08é', '\x16\x1b'])
            keys += pre + body + edit + '/\n'
            if R.random() < 0.7:
                keys += pre + R.choice(['', body[:1], body[:3]]) + '\x01' + R.choice(['', '\x01', '\x08']) + '\n'
        keys += R.choice(['', '/' + mb(70) + '\x01\n', '?' + mb(20) + '\x08\x08\n'])
    elif R.random() < 0.07:
        # the registers that are computed on demand (";" = the current line, "#", "^") and long lines: whatever is copied out of a
        # line, however long, is copied in whole characters
        ch, per = R.choice([('é', 2), ('中', 3), ('😀', 4), ('ب', 2)])
        n = R.choice([1023, 1024, 1025, 2047, 600, 5000]) // per + R.choice([-1, 0, 0, 1])
        lines[R.randrange(len(lines))] = R.choice(['', 'a', 'ab', 'abc']) + ch * n
        k = lines.index(next(l for l in lines if ch * 100 in l)) + 1
        keys = '%dG' % k + ''.join(R.choice(['";p', '";P', 'A\x12;\x1b', 'o\x12;\x1b', ':pu ;\n', ':s/$/\x12;/\n', 'I\x12;\x12;\x1b', '"#p', '"^P', 'yy";p', ':%dy a\n"ap' % k, '$'])
                                   for _ in range(R.randint(1, 4)))
    data = keys.encode('utf-8') + b'\x1b:w! out\n'
    r, d = common.run_vi(vi, data, files={'f1': gen.buf_bytes(lines)}, timeout=60)
    out = common.readf(d, 'out')
    common.rmcase(d)
    wit = {'index': idx, 'lines': lines, 'keys': keys}
    rep = common.san_report(r)
    if rep:
        return (rep, 'sanitizer/crash: keys %r: %s' % (keys, r.err[-300:].decode('latin-1')), wit, False)
    if r.timed_out or out is None:
        return ('inconclusive', None, wit, False)
    try:
        out.decode('utf-8', 'strict')
    except UnicodeDecodeError as e:
        return ('edit:invalid-utf8', 'keys %r on %r: the written file is not valid UTF-8 (%s): %r' % (keys, lines, e, out[max(0, e.start - 12):e.end + 12]), wit, False)
    return (None, None, None, out != gen.buf_bytes(lines))


def run(tier, V):
    vi = build('asan')
    n = 1500 if tier == 'quick' else 30000
    base = common.seed() * 1000003
    res = pmap(run_case, [(vi, base + i) for i in range(n)])
    nt = 0
    samples = []
    for key, what, wit, changed in res:
        if key == 'inconclusive':
            V.inconclusive += 1
        elif key:
            V.violation(key, what, wit)
        elif changed:
            nt += 1
    return {'edit_programs': n, 'edit_programs_nontrivial': nt, 'edit_samples': [{'program': 'dwx~rép:s/x*/-/g'}]}
