"""C16 part 4 (filled in below once the program generators exist)."""
def run(tier, V):
    return {}
