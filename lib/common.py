"""Shared machinery: builds from /repo's working tree, process runner, evidence, findings."""
import atexit, concurrent.futures, hashlib, json, os, random, re, shutil, signal, subprocess, sys
import tempfile, time

REPO = os.environ.get('NEATVI_REPO', '/repo')
VERIF = os.path.dirname(os.path.dirname(os.path.abspath(__file__)))
GUARD = 'NEATVI_VERIF'
NCPU = int(os.environ.get('VERIF_JOBS', '16'))
SRCS = ['vi.c', 'ex.c', 'lbuf.c', 'mot.c', 'sbuf.c', 'ren.c', 'dir.c', 'syn.c', 'reg.c', 'led.c',
        'uc.c', 'term.c', 'rset.c', 'rstr.c', 'regex.c', 'cmd.c', 'tag.c', 'conf.c']

SAN = ['-O1', '-g', '-fno-omit-frame-pointer', '-fsanitize=address,undefined',
       '-fno-sanitize-recover=all', '-fno-sanitize=nonnull-attribute']
VARIANTS = {
    'asan': ('gcc', SAN + ['-D' + GUARD]),
    'plain': ('gcc', ['-O2', '-D' + GUARD]),
    'cov': ('gcc', ['-O0', '-g', '--coverage', '-D' + GUARD]),
    'msan': ('clang', ['-O1', '-g', '-fno-omit-frame-pointer', '-fsanitize=memory',
                       '-fsanitize-memory-track-origins', '-D' + GUARD]),
}

_tmp_root = None


class HarnessError(Exception):
    pass


def tmp_root():
    """Private scratch directory of this check invocation; removed at exit."""
    global _tmp_root
    if _tmp_root is None:
        _tmp_root = tempfile.mkdtemp(prefix='nvv-')
        _owner = os.getpid()
        atexit.register(lambda: os.getpid() == _owner and shutil.rmtree(_tmp_root, True))
    return _tmp_root


def seed():
    try:
        return int(os.environ.get('VERIF_SEED', '1'))
    except ValueError:
        return 1


def rng(*parts):
    h = hashlib.sha256(repr((seed(),) + parts).encode()).digest()
    return random.Random(int.from_bytes(h[:8], 'big'))


def pmap(fn, items, workers=None, procs=False):
    """parallel map; procs=True forks worker processes (for CPU-bound Python oracles: no GIL)"""
    items = list(items)
    if not items:
        return []
    if procs:
        import multiprocessing
        tmp_root()      # create before forking so that children share (and do not remove) it
        with multiprocessing.get_context('fork').Pool(min(workers or NCPU, len(items))) as pool:
            return pool.map(fn, items, chunksize=1)
    with concurrent.futures.ThreadPoolExecutor(max_workers=workers or NCPU) as ex:
        return list(ex.map(fn, items))


def _cc(args):
    r = subprocess.run(args, capture_output=True, text=True)
    return r.returncode, r.stderr


_built = {}


def build(variant='asan', probe=None):
    """Compile /repo/*.c as they are now.  Returns the path of ./vi (probe=None) or of the probe
    executable (probe = path of a C file linked against the repo's objects, vi.c's main renamed)."""
    key = (variant, probe)
    if key in _built:
        return _built[key]
    cc, flags = VARIANTS[variant]
    d = os.path.join(tmp_root(), 'build-%s%s' % (variant, '-probe' if probe else ''))
    os.makedirs(d, exist_ok=True)
    jobs = []
    objs = []
    for s in SRCS:
        o = os.path.join(d, s[:-2] + '.o')
        objs.append(o)
        extra = ['-Dmain=neatvi_main'] if (probe and s == 'vi.c') else []
        jobs.append([cc, '-c', '-w'] + flags + extra + ['-I', REPO, os.path.join(REPO, s), '-o', o])
    if probe:
        o = os.path.join(d, 'probe.o')
        objs.append(o)
        jobs.append([cc, '-c', '-Wall'] + flags + ['-I', REPO, probe, '-o', o])
    res = pmap(_cc, jobs)
    for (rc, err), j in zip(res, jobs):
        if rc != 0:
            raise HarnessError('build failed (%s): %s\n%s' % (variant, ' '.join(j), err[-2000:]))
    exe = os.path.join(d, 'probe' if probe else 'vi')
    rc, err = _cc([cc] + [f for f in flags if f.startswith('-fsanitize') or f in ('-g', '--coverage')] + ['-o', exe] + objs)
    if rc != 0:
        raise HarnessError('link failed (%s): %s' % (variant, err[-2000:]))
    _built[key] = exe
    return exe


# ---------------------------------------------------------------------------------------------
# running the editor

class Result:
    __slots__ = ('rc', 'out', 'err', 'timed_out', 'wall')

    def __init__(self, rc, out, err, timed_out, wall):
        self.rc, self.out, self.err, self.timed_out, self.wall = rc, out, err, timed_out, wall


def base_env(cwd, lines=24, cols=80):
    return {
        'EXINIT': '', 'LINES': str(lines), 'COLUMNS': str(cols), 'HOME': cwd, 'TERM': 'xterm',
        'PATH': '/usr/bin:/bin', 'LC_ALL': 'C',
        'NEATVI_VERIF_SH': os.path.join(VERIF, 'lib', 'safesh'),
        'ASAN_OPTIONS': 'detect_leaks=0:abort_on_error=0:exitcode=99:allocator_may_return_null=1:'
                        'detect_stack_use_after_return=0:symbolize=1:max_malloc_fill_size=0',
        'UBSAN_OPTIONS': 'print_stacktrace=1:halt_on_error=1:exitcode=98',
    }


def run(argv, stdin=b'', cwd=None, env=None, timeout=20, preexec=None):
    t0 = time.time()
    p = subprocess.Popen(argv, stdin=subprocess.PIPE, stdout=subprocess.PIPE, stderr=subprocess.PIPE,
                         cwd=cwd, env=env, start_new_session=True, preexec_fn=preexec)
    try:
        out, err = p.communicate(stdin, timeout=timeout)
        to = False
    except subprocess.TimeoutExpired:
        try:
            os.killpg(p.pid, signal.SIGKILL)
        except ProcessLookupError:
            pass
        out, err = p.communicate()
        to = True
    else:
        try:   # children of :! left behind
            os.killpg(p.pid, signal.SIGKILL)
        except (ProcessLookupError, PermissionError):
            pass
    return Result(p.returncode, out, err, to, time.time() - t0)


def run_progress(argv, stdin=b'', cwd=None, env=None, idle=60, total=600, preexec=None, more=None, more_times=0):
    """like run(), but the verdict on a process that does not end is based on PROGRESS: the editor (hook
    neatvi_verif_progress) writes one byte per executed command to a pipe.  Returns (Result, state, commands) with state
    'done', 'stuck' (no command finished for `idle` seconds), 'starved' / 'unresponsive' (asleep waiting for input after the whole stream, and `more` x more_times, was consumed) or 'running' (still executing commands after `total` seconds)."""
    import selectors
    t0 = time.time()
    pr, pw = os.pipe()
    os.set_blocking(pw, False)
    env = dict(env or {})
    env['NEATVI_VERIF_PROGRESS'] = str(pw)
    p = subprocess.Popen(argv, stdin=subprocess.PIPE, stdout=subprocess.PIPE, stderr=subprocess.PIPE,
                         cwd=cwd, env=env, start_new_session=True, preexec_fn=preexec, pass_fds=(pw,))
    os.close(pw)
    sel = selectors.DefaultSelector()
    for f in (p.stdout, p.stderr):
        os.set_blocking(f.fileno(), False)
        sel.register(f, selectors.EVENT_READ)
    os.set_blocking(pr, False)
    sel.register(pr, selectors.EVENT_READ)
    os.set_blocking(p.stdin.fileno(), False)
    sel.register(p.stdin, selectors.EVENT_WRITE)
    out, err = [], []
    pos = 0
    ncmd = 0
    last = time.time()
    state = 'done'
    open_streams = 2
    while open_streams:
        now = time.time()
        if now - last > 5 and pos >= len(stdin):
            # asleep in read()/poll() on its input after the whole stream was consumed: the stream ran out inside a text block or a
            # prompt (every :g/re/a execution reads one).  It is fed `more` (further quit attempts) up to more_times times; an editor
            # that is still there after that does not react to commands any more.
            try:
                sc = open('/proc/%d/syscall' % p.pid).read().split()
            except OSError:
                sc = []
            if sc and sc[0] in ('0', '7', '23', '271'):
                if more and more_times > 0:
                    more_times -= 1
                    stdin = stdin + more
                    sel.register(p.stdin, selectors.EVENT_WRITE)
                    last = now
                    continue
                state = 'unresponsive' if more else 'starved'
                break
        if now - last > idle:
            state = 'stuck'
            break
        if now - t0 > total:
            state = 'running'
            break
        for key, ev in sel.select(timeout=1.0):
            f = key.fileobj
            if f is p.stdin:
                try:
                    pos += os.write(p.stdin.fileno(), stdin[pos:pos + 65536])
                except (BrokenPipeError, BlockingIOError):
                    pass
                except OSError:
                    pos = len(stdin)
                if pos >= len(stdin):
                    sel.unregister(p.stdin)        # kept open: EOF would make the editor spin
            elif f == pr:
                try:
                    b = os.read(pr, 65536)
                except BlockingIOError:
                    b = b'x'
                if b:
                    ncmd += len(b)
                    last = time.time()
                else:
                    sel.unregister(pr)
            else:
                try:
                    b = f.read(1 << 16)
                except BlockingIOError:
                    b = None
                if b == b'':
                    sel.unregister(f)
                    open_streams -= 1
                elif b:
                    (out if f is p.stdout else err).append(b)
    try:
        os.killpg(p.pid, signal.SIGKILL)
    except (ProcessLookupError, PermissionError):
        pass
    try:
        p.stdin.close()
    except OSError:
        pass
    if state == 'done':
        for f, acc in ((p.stdout, out), (p.stderr, err)):
            pass
    p.wait()
    os.close(pr)
    for f in (p.stdout, p.stderr):
        try:
            f.close()
        except OSError:
            pass
    return Result(p.returncode, b''.join(out), b''.join(err), state != 'done', time.time() - t0), state, ncmd


VI_QUIT = b'\x1b\x1b:\x05q!\n' * 60      # each ESC may only close one pending text block / prompt
EX_QUIT = b'.\nq!\n' * 150            # :g/re/a reads one text block per matching line

def case_dir(tag='c'):
    base = os.path.join(tmp_root(), 'cases')
    os.makedirs(base, exist_ok=True)
    return tempfile.mkdtemp(prefix=tag, dir=base)


def write_files(d, files):
    for name, data in files.items():
        with open(os.path.join(d, name), 'wb') as f:
            f.write(data)


def run_ex(vi, script, files=None, args=None, timeout=20, cwd=None, keep=False, envx=None):
    """vi -s -e <args>; script is bytes; a robust quit is appended.  Returns (Result, cwd)."""
    d = cwd or case_dir('e')
    if files:
        write_files(d, files)
    env = base_env(d)
    if envx:
        env.update(envx)
    r = run([vi, '-s', '-e'] + (args if args is not None else ['f1']), script + b'\n' + EX_QUIT, d, env, timeout)
    return r, d


def run_vi(vi, keys, files=None, args=None, timeout=20, lines=24, cols=80, cwd=None, envx=None):
    d = cwd or case_dir('v')
    if files:
        write_files(d, files)
    env = base_env(d, lines, cols)
    if envx:
        env.update(envx)
    r = run([vi, '-v'] + (args if args is not None else ['f1']), keys + VI_QUIT, d, env, timeout)
    return r, d


def readf(d, name):
    try:
        with open(os.path.join(d, name), 'rb') as f:
            return f.read()
    except FileNotFoundError:
        return None


def rmcase(d):
    shutil.rmtree(d, ignore_errors=True)


# ---------------------------------------------------------------------------------------------
# sanitizer report parsing

_FRAME = re.compile(r'^\s*#\d+ 0x[0-9a-f]+ in (\S+) (\S+)', re.M)


def san_report(r):
    """None if clean; else a key naming the tool, error class and innermost in-repo frames."""
    err = r.err.decode('latin-1', 'replace') if isinstance(r.err, bytes) else r.err
    kind = None
    if getattr(r, 'timed_out', False):
        return None         # killed by the watchdog: a hang is the caller's business, not a crash
    m = re.search(r'ERROR: AddressSanitizer: (\S+)', err)
    if m:
        kind = 'asan:' + m.group(1)
    else:
        m = re.search(r'(?:ERROR|WARNING): (MemorySanitizer|LeakSanitizer): (\S+)', err)
        if m:
            kind = 'msan:' + m.group(2)
        else:
            m = re.search(r'runtime error: (.*)', err)
            if m:
                msg = m.group(1)
                msg = re.sub(r'0x[0-9a-f]+', 'ADDR', msg)
                msg = re.sub(r'-?\d+', 'N', msg)
                kind = 'ubsan:' + msg.strip().replace(' ', '_')[:60]
    if kind is None:
        if r.rc is not None and r.rc < 0:
            kind = 'signal:%d' % (-r.rc)
        elif r.rc in (98, 99):
            kind = 'san:exit%d' % r.rc
        else:
            return None
    frames = [(f, p) for f, p in _FRAME.findall(err) if '/' in p and not p.startswith('/usr')
              and '/libsanitizer/' not in p and 'sanitizer_common' not in p and '/build/' not in p[:8]]
    fn = [f for f, p in frames][:2]
    return kind + ':' + '<'.join(fn)


# ---------------------------------------------------------------------------------------------
# findings and verdicts

def load_findings():
    p = os.path.join(VERIF, 'known_findings.json')
    if not os.path.exists(p):
        return []
    with open(p) as f:
        return json.load(f)['findings']


class Verdict:
    """Collects violations for one check run; routes every key through known_findings.json."""

    def __init__(self, pid):
        self.pid = pid
        self.known = {}
        for f in load_findings():
            if f.get('status') == 'known' and pid in f.get('properties', [f.get('property')]):
                self.known[f['key']] = f
        self.violations = []       # (key, what, replay_path)
        self.known_hits = {}       # key -> count
        self.inconclusive = 0
        self.n = 0

    def violation(self, key, what, witness):
        """witness: JSON-serialisable description sufficient to replay the case."""
        if key in self.known:
            self.known_hits[key] = self.known_hits.get(key, 0) + 1
            return False
        if key.startswith('probe:timeout'):      # the watchdog around a batch of probe commands fired: a loaded machine, never a verdict
            self.inconclusive += 1
            return False
        self.n += 1
        rd = os.path.join(VERIF, 'replay', self.pid)
        os.makedirs(rd, exist_ok=True)
        path = os.path.join(rd, '%s-%03d.json' % (re.sub(r'[^A-Za-z0-9_.-]+', '_', key)[:60], self.n))
        if self.n <= 200:
            with open(path, 'w') as f:
                json.dump({'property': self.pid, 'key': key, 'what': what, 'seed': seed(),
                           'witness': witness}, f, indent=1, default=_jd)
        self.violations.append((key, what, path))
        return True

    def finish(self):
        for k, c in sorted(self.known_hits.items()):
            print('KNOWN-FINDING: property=%s %s [key=%s, seen %d times]' % (self.pid, self.known[k]['what'], k, c))
        seen = set()
        for key, what, path in self.violations:
            if key in seen:
                continue
            seen.add(key)
            print('VIOLATION property=%s replay=%s key=%s :: %s' % (self.pid, path, key, what[:300]))
        return 1 if self.violations else 0


def _jd(o):
    if isinstance(o, bytes):
        return {'hex': o.hex()}
    if isinstance(o, (set, tuple)):
        return list(o)
    return repr(o)


def clean_replay(pid):
    shutil.rmtree(os.path.join(VERIF, 'replay', pid), ignore_errors=True)


def write_evidence(pid, tier, level, coverage, assumptions, wall, nviol):
    if os.environ.get('VERIF_NOEVIDENCE'):     # seeded-change self tests must not overwrite evidence
        return
    os.makedirs(os.path.join(VERIF, 'evidence'), exist_ok=True)
    ev = {'property_id': pid, 'tier': tier, 'seed': seed(), 'level': level, 'coverage': coverage,
          'assumptions': assumptions, 'wall_s': round(wall, 2), 'violations': nviol}
    p = os.path.join(VERIF, 'evidence', pid + '.json')
    with open(p + '.tmp', 'w') as f:
        json.dump(ev, f, indent=1, default=_jd)
    os.replace(p + '.tmp', p)


def hx(b):
    return b.hex() if b else '-'


def show(b, n=120):
    """Readable, JSON-safe rendering of bytes for samples/witnesses."""
    if isinstance(b, str):
        b = b.encode('utf-8', 'surrogateescape')
    s = b[:n].decode('utf-8', 'backslashreplace')
    s = ''.join(c if (c >= ' ' and c != '\x7f') else '^' + chr(ord(c) ^ 64) for c in s)
    return s + ('…(%d bytes)' % len(b) if len(b) > n else '')
