"""Defensive parsers for the data tables the C17/C18 oracles read from the source tree."""
import os, re
import common


def _src(name):
    with open(os.path.join(common.REPO, name), encoding='utf-8', errors='surrogateescape') as f:
        return f.read()


def range_table(name):
    """[(lo,hi),...] of 'static int <name>[][2] = {...};' in uc.c, or None if it cannot be parsed."""
    try:
        s = _src('uc.c')
        m = re.search(r'static\s+int\s+%s\s*\[\]\s*\[2\]\s*=\s*\{(.*?)\n\};' % name, s, re.S)
        if not m:
            return None
        pairs = re.findall(r'\{\s*(0x[0-9a-fA-F]+|\d+)\s*,\s*(0x[0-9a-fA-F]+|\d+)\s*\}', m.group(1))
        if not pairs:
            return None
        return [(int(a, 0), int(b, 0)) for a, b in pairs]
    except Exception:
        return None


def in_table(tab, c):
    for lo, hi in tab:      # deliberately linear: independent of the bisection under test
        if lo <= c <= hi:
            return True
    return False


class RangeSet:
    """linear-scan membership, with a bitmap cache so that 1.1M lookups stay cheap"""
    def __init__(self, tab):
        self.tab = tab
        self.bits = bytearray(0x110000)
        for lo, hi in tab:
            for c in range(max(lo, 0), min(hi, 0x10ffff) + 1):
                self.bits[c] = 1

    def __contains__(self, c):
        return 0 <= c < 0x110000 and self.bits[c] == 1


def achars():
    """[(c, s, i, m, f)] from uc.c achars[]"""
    try:
        s = _src('uc.c')
        m = re.search(r'achars\[\]\s*=\s*\{(.*?)\n\};', s, re.S)
        out = []
        for ent in re.findall(r'\{([^{}]*)\}', m.group(1)):
            nums = [int(x, 0) for x in re.findall(r'0x[0-9a-fA-F]+|\b\d+\b', ent)]
            if nums:
                nums = (nums + [0, 0, 0, 0, 0])[:5]
                out.append(tuple(nums))
        return out or None
    except Exception:
        return None


def _cstr(lit):
    """decode a C string literal body (bytes semantic) to bytes"""
    out = bytearray()
    i = 0
    b = lit.encode('utf-8', 'surrogateescape')
    while i < len(b):
        c = b[i]
        if c == 0x5c and i + 1 < len(b):
            n = b[i + 1]
            i += 2
            if n == ord('n'):
                out.append(10)
            elif n == ord('t'):
                out.append(9)
            elif n == ord('x'):
                j = i
                while j < len(b) and chr(b[j]) in '0123456789abcdefABCDEF':
                    j += 1
                out.append(int(b[i:j], 16) & 0xff)
                i = j
            elif chr(n) in '01234567':
                j = i - 1
                k = j
                while k < len(b) and k < j + 3 and chr(b[k]) in '01234567':
                    k += 1
                out.append(int(b[j:k], 8) & 0xff)
                i = k
            else:
                out.append(n)
        else:
            out.append(c)
            i += 1
    return bytes(out)


def conf_macro(name):
    """value of '#define NAME "..."' in conf.h as a python str (UTF-8 decoded), or None"""
    try:
        s = _src('conf.h')
        m = re.search(r'#define\s+%s\s+"((?:[^"\\]|\\.)*)"' % name, s)
        return _cstr(m.group(1)).decode('utf-8')
    except Exception:
        return None


def placeholders():
    """[(src_str, dst_str, wid)] from conf.h placeholders[]"""
    try:
        s = _src('conf.h')
        m = re.search(r'placeholders\[\]\s*=\s*\{(.*?)\n\};', s, re.S)
        out = []
        for a, b, w in re.findall(r'\{\s*"((?:[^"\\]|\\.)*)"\s*,\s*"((?:[^"\\]|\\.)*)"\s*,\s*(\d+)\s*\}', m.group(1)):
            out.append((_cstr(a).decode('utf-8'), _cstr(b).decode('utf-8'), int(w)))
        return out or None
    except Exception:
        return None


def dirmarks():
    """[(ctx, dir, grp, pattern_str)] from conf.h dirmarks[] (string literals and CR2L/CNEUT macros concatenated), or None"""
    try:
        s = _src('conf.h')
        m = re.search(r'dirmarks\[\]\s*=\s*\{(.*?)\n\};', s, re.S)
        out = []
        for ctx, d, grp, expr in re.findall(r'\{\s*([+-]?\d+)\s*,\s*([+-]?\d+)\s*,\s*(\d+)\s*,\s*((?:"(?:[^"\\]|\\.)*"|[A-Z0-9_]+|\s)+)\}', m.group(1)):
            pat = ''
            for lit, mac in re.findall(r'"((?:[^"\\]|\\.)*)"|([A-Z0-9_]+)', expr):
                pat += conf_macro(mac) if mac else _cstr(lit).decode('utf-8')
            out.append((int(ctx), int(d), int(grp), pat))
        return out or None
    except Exception:
        return None
