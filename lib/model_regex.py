"""Reference matcher for the ERE dialect neatvi accepts: an AST interpreter with priority-ordered
backtracking (greedy quantifiers, left-biased alternation), written independently of the compiled
VM in regex.c.  Positions are code-point indices into a Python str.

AST nodes (tuples):
  ('lit', 'abc')            literal text
  ('any',)                  .
  ('brk', neg, items)       items: ('ch', c) | ('range', a, b) | ('class', 'alpha')
  ('bol',) ('eol',) ('wbeg',) ('wend',)
  ('grp', node_or_None)     capturing group (numbered in order of the opening parenthesis)
  ('cat', [nodes])
  ('alt', left_or_None, right)
  ('rep', node, min, max)   max == -1: unbounded
"""
import sys

sys.setrecursionlimit(20000)

CLASSES = {
    'alnum': lambda c: c < 128 and chr(c).isalnum(),
    'alpha': lambda c: c < 128 and chr(c).isalpha(),
    'blank': lambda c: c in (32, 9),
    'digit': lambda c: 48 <= c <= 57,
    'lower': lambda c: 97 <= c <= 122,
    'print': lambda c: 0x20 <= c <= 0x7e,
    'punct': lambda c: c < 128 and chr(c) in '][!"#$%&\'()*+,./:;<=>?@\\^_`{|}~-',
    'space': lambda c: c in (32, 9, 13, 10, 11, 12),
    'upper': lambda c: 65 <= c <= 90,
    'word': lambda c: c < 128 and (chr(c).isalnum() or c == 95),
    'xdigit': lambda c: c < 128 and chr(c) in '0123456789abcdefABCDEF',
}


class Budget(Exception):
    pass


def isword(c):
    return c > 127 or (chr(c).isalnum() and c < 128) or c == 95


def fold(c):
    return c + 32 if 65 <= c <= 90 else c


def number_groups(ast):
    """returns (ast with ('grp', node, idx), ngroups); idx starts at 1, pre-order"""
    cnt = [0]

    def walk(n):
        if n is None:
            return None
        t = n[0]
        if t == 'grp':
            cnt[0] += 1
            idx = cnt[0]
            return ('grp', walk(n[1]), idx)
        if t == 'cat':
            return ('cat', [walk(x) for x in n[1]])
        if t == 'alt':
            l = walk(n[1])
            r = walk(n[2])
            return ('alt', l, r)
        if t == 'rep':
            return ('rep', walk(n[1]), n[2], n[3])
        return n
    out = walk(ast)
    return out, cnt[0]


class Matcher:
    def __init__(self, ast, line, icase=False, notbol=False, noteol=False, budget=60000, wordbef=False):
        self.ast, self.ngroups = number_groups(ast)
        self.s = [ord(c) for c in line]
        self.n = len(self.s)
        self.icase, self.notbol, self.noteol = icase, notbol, noteol
        self.wordbef = wordbef      # a word character precedes the string (RE_WORDBEF)
        self.budget = budget
        self.steps = 0
        self.emptyloop = False

    # -- atoms
    def brk(self, node, c):
        neg, items = node[1], node[2]
        if self.icase:
            c = fold(c)
        hit = False
        for it in items:
            if it[0] == 'ch':
                a = b = ord(it[1])
            elif it[0] == 'range':
                a, b = ord(it[1]), ord(it[2])
            else:
                if CLASSES[it[1]](c) or (self.icase and it[1] in ('upper',) and CLASSES['lower'](c)):
                    hit = True
                    break
                continue
            if self.icase:
                a, b = fold(a), fold(b)
            if a <= c <= b:
                hit = True
                break
        return hit != neg

    def m(self, node, i, caps, k):
        self.steps += 1
        if self.steps > self.budget:
            raise Budget()
        if node is None:
            return k(i, caps)
        t = node[0]
        s, n = self.s, self.n
        if t == 'lit':
            j = i
            for ch in node[1]:
                if j >= n:
                    return None
                a, b = ord(ch), s[j]
                if self.icase:
                    a, b = fold(a), fold(b)
                if a != b:
                    return None
                j += 1
            return k(j, caps)
        if t == 'any':
            if i >= n or s[i] == 10:
                return None
            return k(i + 1, caps)
        if t == 'brk':
            if i >= n or s[i] == 10:         # no bracket expression matches the newline
                return None
            if not self.brk(node, s[i]):
                return None
            return k(i + 1, caps)
        if t == 'bol':
            if i == 0:
                ok = not self.notbol
            else:       # after an embedded newline, but not after the line's own terminator
                ok = s[i - 1] == 10 and i < n
            return k(i, caps) if ok else None
        if t == 'eol':
            if i == n:
                ok = not self.noteol
            else:
                ok = s[i] == 10
            return k(i, caps) if ok else None
        if t == 'wbeg':
            ok = ((not self.wordbef) if i == 0 else not isword(s[i - 1])) and i < n and isword(s[i])
            return k(i, caps) if ok else None
        if t == 'wend':
            ok = (self.wordbef if i == 0 else isword(s[i - 1])) and (i == n or not isword(s[i]))
            return k(i, caps) if ok else None
        if t == 'grp':
            g = node[2]
            c1 = dict(caps)
            c1[2 * g] = i

            def after(j, c2):
                c3 = dict(c2)
                c3[2 * g + 1] = j
                return k(j, c3)
            return self.m(node[1], i, c1, after)
        if t == 'cat':
            items = node[1]

            def seq(idx, j, c):
                if idx == len(items):
                    return k(j, c)
                return self.m(items[idx], j, c, lambda jj, cc: seq(idx + 1, jj, cc))
            return seq(0, i, caps)
        if t == 'alt':
            r = self.m(node[1], i, caps, k)
            if r is not None:
                return r
            return self.m(node[2], i, caps, k)
        if t == 'rep':
            body, lo, hi = node[1], node[2], node[3]

            def loop(cnt, j, c):
                if cnt < lo:
                    return self.m(body, j, c, lambda jj, cc: loop(cnt + 1, jj, cc))
                if hi < 0 or cnt < hi:
                    def again(jj, cc):
                        if hi < 0 and jj == j:
                            # an unbounded loop iterating on the empty string: the engine recurses
                            # until its depth limit cuts the branch; flagged, not modelled
                            self.emptyloop = True
                            return None
                        return loop(cnt + 1, jj, cc)
                    r = self.m(body, j, c, again)
                    if r is not None:
                        return r
                return k(j, c)
            if lo == 0 and hi == 0:
                return k(i, caps)
            return loop(0, i, caps)
        raise ValueError('bad node %r' % (node,))

    def match_at(self, start):
        return self.m(self.ast, start, {0: start}, lambda j, c: (j, c))

    def search(self):
        """first match in priority order at the leftmost start; returns (start, end, groups) or None.
        groups: list of (so, eo) for groups 1..ngroups (-1,-1 when unset)."""
        # regexec tries every character position and, for a non-empty string, the end position too
        for st in range(self.n + 1 if self.n else 0):
            r = self.match_at(st)
            if r is not None:
                j, c = r
                groups = [(c.get(2 * g, -1), c.get(2 * g + 1, -1)) for g in range(1, self.ngroups + 1)]
                groups = [(a, b) if (a >= 0 and b >= 0) else (a if a >= 0 else -1, b if b >= 0 else -1) for a, b in groups]
                return st, j, groups
        return None

    def can_match(self, start, end):
        """is there ANY parse matching exactly [start,end)?  (soundness of a reported span)"""
        found = [False]

        def k(j, c):
            if j == end:
                found[0] = True
                return (j, c)
            return None
        self.m(self.ast, start, {0: start}, k)
        return found[0]

    def all_nonoverlapping(self, notbol_after_first=False):
        """successive non-overlapping matches scanning left to right on the whole line (context preserved):
        after a match [a,b) resume at b (at b+1 after an empty match)."""
        out = []
        pos = 0
        while pos < self.n:
            r = None
            for st in range(pos, self.n):
                r0 = self.match_at(st)
                if r0 is not None:
                    r = (st, r0[0], r0[1])
                    break
            if r is None:
                break
            out.append(r)
            pos = r[1] if r[1] > r[0] else r[1] + 1
        return out


# ---------------------------------------------------------------------------------------------
# rendering to pattern text

SPECIAL = set('.^$[(|)*?+{\\')


def render(node, top=True):
    if node is None:
        return ''
    t = node[0]
    if t == 'lit':
        return ''.join('\\' + c if c in SPECIAL else c for c in node[1])
    if t == 'any':
        return '.'
    if t == 'brk':
        out = '[' + ('^' if node[1] else '')
        items = []
        for it in node[2]:
            if it not in items:
                items.append(it)
        first = [it for it in items if it == ('ch', ']')]
        last = [it for it in items if it == ('ch', '-')]
        mid = [it for it in items if it not in first and it not in last]
        for it in first + mid + last:
            if it[0] == 'ch':
                out += it[1]
            elif it[0] == 'range':
                out += it[1] + '-' + it[2]
            else:
                out += '[:' + it[1] + ':]'
        return out + ']'
    if t == 'bol':
        return '^'
    if t == 'eol':
        return '$'
    if t == 'wbeg':
        return '\\<'
    if t == 'wend':
        return '\\>'
    if t == 'grp':
        return '(' + render(node[1], False) + ')'
    if t == 'cat':
        return ''.join(render(x, False) for x in node[1])
    if t == 'alt':
        return render(node[1], False) + '|' + render(node[2], False)
    if t == 'rep':
        lo, hi = node[2], node[3]
        b = render(node[1], False)
        if (lo, hi) == (0, -1):
            q = '*'
        elif (lo, hi) == (1, -1):
            q = '+'
        elif (lo, hi) == (0, 1):
            q = '?'
        elif hi < 0:
            q = '{%d,}' % lo
        elif lo == hi:
            q = '{%d}' % lo
        elif lo == 0:
            q = '{,%d}' % hi
        else:
            q = '{%d,%d}' % (lo, hi)
        return b + q
    raise ValueError(node)


# ---------------------------------------------------------------------------------------------
# generators

def rep_ok(node):
    """may a quantifier be attached to this node when rendered?"""
    t = node[0]
    return t in ('any', 'brk', 'grp') or (t == 'lit' and len(node[1]) == 1)


def small_atoms():
    return [('lit', 'a'), ('lit', 'b'), ('any',), ('brk', False, [('ch', 'a'), ('ch', 'b')]), ('brk', True, [('ch', 'a')]),
            ('bol',), ('eol',), ('wbeg',), ('wend',)]


QUANTS = [(0, -1), (1, -1), (0, 1), (1, 2)]


def enum_items(depth):
    """single items (atom, quantified atom, group of smaller expr) of 'size' <= depth"""
    out = []
    for a in small_atoms():
        out.append((1, a))
        if rep_ok(a):
            for lo, hi in QUANTS:
                out.append((1, ('rep', a, lo, hi)))
    if depth >= 2:
        for sz, e in enum_exprs(depth - 1):
            g = ('grp', e)
            out.append((sz + 1, g))
            if sz <= 1:
                for lo, hi in QUANTS:
                    out.append((sz + 1, ('rep', g, lo, hi)))
    return out


_memo = {}


def enum_exprs(depth):
    """all expressions (cat / alt of items) with total size <= depth; returns list of (size, ast)"""
    if depth in _memo:
        return _memo[depth]
    res = []
    items = enum_items(depth) if depth >= 1 else []
    # sequences
    seqs = {1: [(sz, [it]) for sz, it in items if sz <= depth]}
    for L in range(2, depth + 1):
        seqs[L] = []
        for sz, sq in seqs[L - 1]:
            for s2, it in items:
                if sz + s2 <= depth:
                    seqs[L].append((sz + s2, sq + [it]))
    allseq = []
    for L in seqs:
        for sz, sq in seqs[L]:
            allseq.append((sz, sq[0] if len(sq) == 1 else ('cat', sq)))
    res.extend(allseq)
    # alternations of two sequences (and with an empty left side)
    bysz = {}
    for sz, a in allseq:
        bysz.setdefault(sz, []).append(a)
    for sz1 in bysz:
        for sz2 in bysz:
            if sz1 + sz2 + 1 <= depth:
                for a in bysz[sz1]:
                    for b in bysz[sz2]:
                        res.append((sz1 + sz2 + 1, ('alt', a, b)))
    for sz, b in allseq:
        if sz + 1 <= depth and depth >= 2:
            res.append((sz + 1, ('alt', None, b)))
    _memo[depth] = res
    return res


# \u0441 \u0442 \u0141: code points whose LOW BYTE is an ASCII capital (0x41 0x42 0x41): case folding must look at the whole code point
LETTERS = ['a', 'b', 'c', 'x', 'A', 'B', 'é', 'É', 'ب', '中', '_', '1', ' ', '-', '.', '*', '\u0441', '\u0442', '\u0141', '\U0001f600', '\U0001f601']      # (the last two: four-byte characters that differ in their last byte only)


def rand_ast(R, depth=3, alphabet=None):
    alphabet = alphabet or LETTERS

    def lit():
        return ('lit', ''.join(R.choice(alphabet) for _ in range(R.choice([1, 1, 1, 2, 3]))))

    def brk():
        items = []
        for _ in range(R.randint(1, 3)):
            k = R.random()
            if k < 0.5:
                items.append(('ch', R.choice([c for c in alphabet if c not in '-]^[\\'] + [']', '-', '\\', '['])))      # (a backslash is an ordinary member of a bracket expression)
            elif k < 0.8:
                items.append(R.choice([('range', 'a', 'c'), ('range', 'A', 'C'), ('range', '0', '9'), ('range', 'à', 'ÿ'), ('range', 'ا', 'ي'), ('range', 'a', 'z')]))
            else:
                items.append(('class', R.choice(list(CLASSES))))
        return ('brk', R.random() < 0.3, items)

    def atom(d):
        k = R.random()
        if k < 0.4:
            return lit()
        if k < 0.5:
            return ('any',)
        if k < 0.65:
            return brk()
        if k < 0.75:
            return R.choice([('bol',), ('eol',), ('wbeg',), ('wend',)])
        if d > 0:
            return ('grp', expr(d - 1) if R.random() < 0.95 else None)
        return lit()

    def item(d):
        a = atom(d)
        if R.random() < 0.4:
            if not rep_ok(a):
                if a[0] == 'lit':
                    a = ('lit', a[1][-1])
                else:
                    return a
            lo, hi = R.choice([(0, -1), (1, -1), (0, 1), (0, -1), (1, -1), (2, 3), (0, 2), (2, -1), (1, 1), (2, 2), (0, 5), (3, -1)])
            return ('rep', a, lo, hi)
        return a

    def seq(d):
        n = R.choice([1, 1, 2, 2, 3, 4])
        items = [item(d) for _ in range(n)]
        return items[0] if n == 1 else ('cat', items)

    def expr(d):
        if R.random() < 0.25:
            left = seq(d) if R.random() < 0.9 else None
            return ('alt', left, seq(d))
        return seq(d)
    return expr(depth)


def can_be_empty_loop(node):
    """does the AST contain an unbounded repetition whose body can match the empty string?"""
    def nullable(n):
        if n is None:
            return True
        t = n[0]
        if t == 'lit':
            return len(n[1]) == 0
        if t in ('any', 'brk'):
            return False
        if t in ('bol', 'eol', 'wbeg', 'wend'):
            return True
        if t == 'grp':
            return nullable(n[1])
        if t == 'cat':
            return all(nullable(x) for x in n[1])
        if t == 'alt':
            return nullable(n[1]) or nullable(n[2])
        if t == 'rep':
            return n[2] == 0 or nullable(n[1])
    def walk(n):
        if n is None:
            return False
        t = n[0]
        if t == 'rep':
            if n[3] < 0 and nullable(n[1]):
                return True
            return walk(n[1])
        if t == 'grp':
            return walk(n[1])
        if t == 'cat':
            return any(walk(x) for x in n[1])
        if t == 'alt':
            return walk(n[1]) or walk(n[2])
        return False
    return walk(node)


def byte_off(line, i):
    return len(line[:i].encode('utf-8'))
