"""C13: search lands on the first match after / last match before the cursor, no wrap.

Reference-model monitor on the real `vi -v` (ASan+UBSan): cursor placed, a sequence of / ? n N ^A
(with counts) typed, then a marker character inserted at the cursor and the buffer written; the
marker's position is compared with a whole-line search model on top of the C10 reference matcher.
"""
import common, gen
import model_regex as mr
from common import pmap, rng, build

MARK = '\ue000'          # private-use code point that no generated text contains


def kind1(c):
    return ord(c) > 0x7f or c.isalnum() or c == '_'


class Model:
    def __init__(self, lines, icase):
        self.lines, self.icase = lines, icase
        self.budget_hit = False
        self.variant = None
        self.emptyloop = False

    def match_at(self, ast, line, st):
        M = mr.Matcher(ast, line, self.icase)
        r = M.match_at(st)
        self.emptyloop |= M.emptyloop
        return None if r is None else r[0]

    def first_from(self, ast, line, frm):
        if self.variant == 'suffix':
            # defect variant: the search sees only the rest of the line (no left context; ^ excluded via NOTBOL)
            sub = line[frm:]
            M = mr.Matcher(ast, sub, self.icase, notbol=frm > 0)
            for st in range(0, len(sub) + 1):
                r = M.match_at(st)
                self.emptyloop |= M.emptyloop
                if r is not None:
                    return st + frm, r[0] + frm
            return None
        for st in range(frm, len(line) + 1):
            e = self.match_at(ast, line, st)
            if e is not None:
                return st, e
        return None

    def successive(self, ast, line, limit=None):
        """successive non-overlapping matches from the line start; stop at the first one starting at >= limit"""
        out = []
        pos = 0
        while pos <= len(line):
            m = self.first_from(ast, line, pos)
            if m is None:
                break
            st, e = m
            if limit is not None and st >= limit:
                break
            out.append((st, e))
            pos = e if e > st else e + 1
            if pos >= len(line):
                # the editor stops once the rest of the line is empty
                break
        return out

    def search(self, ast, r, o, direction, variant=None):
        lines = self.lines
        if direction > 0:
            m = self.first_from(ast, lines[r], o + 1) if o + 1 <= len(lines[r]) else None
            if m:
                return r, m[0], m[1] - m[0]
            for i in range(r + 1, len(lines)):
                m = self.first_from(ast, lines[i], 0)
                if m:
                    return i, m[0], m[1] - m[0]
            return None
        ms = self.successive(ast, lines[r], limit=o)
        if ms:
            return r, ms[-1][0], ms[-1][1] - ms[-1][0]
        for i in range(r - 1, -1, -1):
            ms = self.successive(ast, lines[i])
            if ms:
                return i, ms[-1][0], ms[-1][1] - ms[-1][0]
        return None


def clamp(lines, r, o):
    n = len(lines[r])
    if o >= n:
        o = max(0, n - 1)
    return r, o


def typed_pat(ast, delim):
    p = mr.render(ast)
    return p.replace(delim, '\\' + delim)


def make_case(idx):
    R = rng('c13', idx)
    words = ['foo', 'bar', 'Foo', 'a', 'ab', 'aaa', 'x', 'é', 'été', 'λόγ', '中', 'a1', '_', 'b', 'xfoo', 'foofoo', 'foo_bar'] + (['a\\', '\\', 'b\\/', 'a/'] if idx % 5 == 0 else [])
    near = idx % 7 == 3       # characters that are one bit (0x20) away from another one without being its other case
    if near:
        words = ['@', '`', '~x', '^x', '_a', '\x7fa', 'É', 'é', 'Я', 'я', 'ぢ', 'あ', 'a', 'A', 'x@', 'x`'] + words[:4]
    nl = R.randint(1, 8)
    lines = []
    for _ in range(nl):
        toks = [R.choice(words + [' ', ' ', '.', '-', '(', ')']) for _ in range(R.randint(0, 8))]
        lines.append(''.join(toks))
    if all(not l for l in lines):
        lines[0] = 'foo bar'
    r = R.randrange(nl)
    o = R.randrange(max(1, len(lines[r])))
    noic = R.random() < 0.4
    steps = []
    for _ in range(R.choice([1, 1, 1, 2, 3, 5])):
        k = R.random()
        cnt = R.choice(['', '', '', '2', '3'])
        if k < 0.45 or not steps:
            x = R.random()
            if x < 0.4:
                w = R.choice(['foo', 'a', 'ab', 'x', 'é', 'aa', 'o', 'bar', 'b'] + (['a\\', '\\', 'b\\', 'a/', '\\/'] if idx % 5 == 0 else []))
                if near:
                    w = R.choice(['@', '`', '~x', '_a', 'é', 'É', 'я', 'あ', 'ぢ', 'x@', 'a'])
                parts = []
                if R.random() < 0.2:
                    parts.append(('bol',))
                if R.random() < 0.35:
                    parts.append(('wbeg',))
                parts.append(('lit', w))
                if R.random() < 0.3:
                    parts.append(('wend',))
                if R.random() < 0.15:
                    parts.append(('eol',))
                ast = parts[0] if len(parts) == 1 else ('cat', parts)
            elif x < 0.8:
                ast = mr.rand_ast(R, depth=R.choice([0, 1, 1, 2]), alphabet=['a', 'b', 'o', 'f', 'x', 'é', 'A', ' ', '1', 'F', 'r'])
            else:
                ast = R.choice([('rep', ('lit', 'x'), 0, -1), ('bol',), ('eol',), ('wbeg',), ('wend',), ('cat', [('bol',), ('eol',)]),
                                ('rep', ('brk', False, [('range', 'a', 'c')]), 1, -1), ('cat', [('any',), ('any',)]), ('alt', ('lit', 'foo'), ('lit', 'bar'))])
            if steps and R.random() < 0.15:
                ast = None      # empty pattern: reuse the previous one, possibly in the other direction
            so = R.choice(['+1', '-1', '0', '+0', '2', ' 1', '-2']) if R.random() < 0.15 else None
            steps.append((R.choice(['/', '/', '?']), cnt, ast, so))
        elif k < 0.75:
            steps.append(('n', cnt, None, None))
        elif k < 0.9:
            steps.append(('N', cnt, None, None))
        else:
            steps.append(('^A', cnt if cnt != '3' else '', None, None))
    if R.random() < 0.06:
        # directed: one keyword, candidates that differ in case only, the option switched back and forth between repeats
        lines = [R.choice(['foo', 'Foo', 'FOO', 'xfoo Foo', 'bar Foo foo', 'a', 'fOO foo', '']) for _ in range(R.randint(3, 8))]
        nl = len(lines)
        r = R.randrange(nl)
        o = 0
        noic = R.random() < 0.5
        steps = [(R.choice(['/', '?']), '', ('lit', R.choice(['foo', 'Foo', 'FOO'])), None)]
        for _ in range(R.randint(2, 5)):
            steps.append(R.choice([('ic', '', None, None), ('noic', '', None, None)]))
            steps.append(R.choice([('n', '', None, None), ('N', '', None, None), ('n', '2', None, None), ('/', '', None, None), ('?', '', None, None)]))
    elif R.random() < 0.3:
        # between searches: the ignore-case option is switched (the pattern stays, its meaning changes), or a search prompt of either
        # direction is opened and given up (nothing was searched: direction, pattern and offset stay what they were)
        extra = []
        for st in steps:
            extra.append(st)
            if R.random() < 0.5:
                extra.append(R.choice([('ic', '', None, None), ('noic', '', None, None), ('cancel/', '', None, None), ('cancel?', '', None, None), ('cancel?', 'x', None, None), ('cancel/', 'ab', None, None)]))
        steps = extra
    if R.random() < 0.12 and steps[0][0] in '/?':
        # directed family: an offset search, then searches that carry no offset of their own
        c0, n0, a0, _ = steps[0]
        steps = [(c0, n0, a0, R.choice(['+1', '-1', '0', '+0']))] + [R.choice([('^A', '', None, None), ('^A', '2', None, None), ('n', '', None, None), ('N', '', None, None)]) for _ in range(R.randint(1, 3))]
    return {'lines': lines, 'row': r, 'off': o, 'noic': noic, 'steps': steps, 'idx': idx}


def keys_of(case):
    k = b''
    if case['noic']:
        k += b':se noic\n'
    k += b'%dG0' % (case['row'] + 1)
    if case['off']:
        k += b'%dl' % case['off']
    for cmd, cnt, ast, so in case['steps']:
        if cmd in '/?':
            k += cnt.encode() + cmd.encode() + (typed_pat(ast, cmd).encode('utf-8') if ast is not None else b'') + ((cmd + so).encode() if so else ((cmd + ['', '', ' ', '\t', '  '][case['idx'] % 5]).encode() if case['idx'] % 3 == 0 else b'')) + b'\n'      # (closing delimiter: optional; blanks after it are no offset)
        elif cmd in ('ic', 'noic'):
            k += b':se ' + cmd.encode() + b'\n'
        elif cmd.startswith('cancel'):
            k += cmd[-1].encode() + cnt.encode() + b'\x1b'
        elif cmd == '^A':
            k += cnt.encode() + b'\x01'
        else:
            k += cnt.encode() + cmd.encode()
    k += b'i' + MARK.encode() + b'\x1b:w! out\n'
    return k


def simulate(case, variant=None):
    lines = case['lines']
    M = Model(lines, not case['noic'])
    M.variant = variant
    r, o = clamp(lines, case['row'], case['off'])
    last = None     # (ast, dir)
    moved = False
    soset, sov = False, 0
    for cmd, cnt, ast, so in case['steps']:
        if cmd in ('ic', 'noic'):
            M.icase = cmd == 'ic'
            continue
        if cmd.startswith('cancel'):
            continue
        n = int(cnt) if cnt else 1
        if cmd in '/?':
            # a line offset after the closing delimiter turns the search into a line motion to (match line + offset); n and N keep it
            soset, sov = so is not None, int(so) if so else 0
            if ast is None:
                if last is None:
                    continue
                ast = last[0]
            last = (ast, +1 if cmd == '/' else -1)
            d = last[1]
        elif cmd == '^A':
            ln = lines[r]
            if not ln:
                continue
            b = e = o
            while e < len(ln) and kind1(ln[e]):
                e += 1
            while b > 0 and kind1(ln[b - 1]):
                b -= 1
            if b >= e:
                continue
            w = ln[b:e][:119]
            soset = False
            last = (('cat', [('wbeg',), ('lit', w), ('wend',)]), +1)
            d = +1
        else:
            if last is None:
                continue
            d = last[1] if cmd == 'n' else -last[1]
        cr, co = r, o
        ok = True
        for i in range(n):
            res = M.search(last[0], cr, co, d, variant)
            if res is None:
                ok = False
                break
            cr, co, ln_ = res
        if ok and soset:
            if 0 <= cr + sov < len(lines):
                r = cr + sov
                r, o = clamp(lines, r, len(lines[r]) - len(lines[r].lstrip(' \t')))
                moved = True
        elif ok:
            r, o = clamp(lines, cr, co)
            moved = True
    return r, o, M, moved


def run_case(args):
    vi, idx = args
    case = make_case(idx)
    keys = keys_of(case)
    r, d = common.run_vi(vi, keys, files={'f1': gen.buf_bytes(case['lines'])}, timeout=60, lines=30, cols=100)
    got = common.readf(d, 'out')
    common.rmcase(d)
    wit = {'index': idx, 'lines': case['lines'], 'cursor': (case['row'], case['off']), 'keys': keys,
           'steps': [(c, n, mr.render(a) if a else None, so) for c, n, a, so in case['steps']]}
    rep = common.san_report(r)
    if rep:
        return (rep, 'sanitizer/crash: keys %s: %s' % (common.show(keys, 200), r.err[-400:].decode('latin-1')), wit, False)
    if r.timed_out or got is None:
        return ('inconclusive', 'timeout/no output', wit, False)
    try:
        txt = got.decode('utf-8')
    except UnicodeDecodeError:
        return ('search:invalid-utf8', 'output not UTF-8', wit, False)
    glines = txt.split('\n')[:-1] if txt.endswith('\n') else txt.split('\n')
    pos = [(i, l.index(MARK)) for i, l in enumerate(glines) if MARK in l]
    if len(pos) != 1 or [l.replace(MARK, '') for l in glines] != case['lines']:
        return ('search:text-changed', 'the search sequence changed the text or the marker is missing: %r' % (glines,), wit, False)
    try:
        er, eo, M, moved = simulate(case)
    except (mr.Budget, RecursionError):
        return ('inconclusive', 'reference matcher budget', wit, False)
    if M.emptyloop:
        return ('inconclusive', 'unbounded loop on the empty string', wit, False)
    if pos[0] != (er, eo):
        desc = 'lines %r cursor %s keys %s: cursor ends at %s, reference says %s' % (case['lines'], (case['row'], case['off']), wit['steps'], pos[0], (er, eo))
        pats = ' '.join(s[2] or '' for s in wit['steps'])
        try:
            vr, vo, _, _ = simulate(case, 'suffix')
            if (vr, vo) == pos[0] and ('\\<' in pats or '\\>' in pats or any(s[0] == '^A' for s in wit['steps'])):
                return ('search:word-boundary-no-left-context@resume', desc + ' [equals the variant in which \\< / \\> see no left context where the scan resumes]', wit, False)
        except Exception:
            pass
        return ('search:position', desc, wit, False)
    return (None, None, None, moved)


def run(tier, V):
    vi = build('asan')
    n = 2500 if tier == 'quick' else 50000
    base = common.seed() * 32452843
    res = pmap(run_case, [(vi, base + i) for i in range(n)], procs=True)
    moved = 0
    for key, what, wit, mv in res:
        if key == 'inconclusive':
            V.inconclusive += 1
        elif key:
            V.violation(key, what, wit)
        elif mv:
            moved += 1
    c0 = make_case(base)
    cov = {'evaluations': n, 'distinct_nontrivial': moved,
           'rule': ('%d cases: buffers of 1-8 lines (ASCII, Latin-1, Greek, CJK words, punctuation), every kind of start position, sequences of 1-5 searches from / ? n N ^A with counts and (15%%) line offsets after the closing delimiter, ignore-case switched and prompts given up between them, patterns from the C10 generator '
                    '(anchored, word-boundary, empty-matching, groups, classes), ignorecase on/off; cursor observed through a marker inserted after the sequence.  non-trivial = the reference moved the cursor at least once.' % n),
           'samples': [{'lines': c0['lines'], 'cursor': (c0['row'], c0['off']), 'steps': [(c, k, mr.render(a) if a else None, so) for c, k, a, so in c0['steps']]}]}
    assumptions = ['whole-line semantics: anchors and word boundaries see their real neighbours; the line terminator is not part of the text',
                   'left-to-right scripts only (bidi is C17/C18); cursor is clamped off the terminator after the search']
    return cov, assumptions


def REPLAY(w):
    return run_case((build('asan'), w['index']))[:2]
