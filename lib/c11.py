"""C11: any pattern string is safely rejected or compiled; matching stays in bounds.

Oracle: ASan+UBSan on the probe (compile through rset_make and rstr_make, match against a family
of lines, two flag sets) plus range / character-boundary assertions on returned offsets, evaluated
by the monitor inside the probe for the exhaustive domain.  Hangs are decided by a watchdog and a
re-run.
"""
import os, re
import common
from common import pmap, rng, build, VERIF

PROBE = os.path.join(VERIF, 'probe', 'probe.c')
ALPHA = 'a()[]{},19*+?|\\^$.-:'      # 20 symbols; the first 16 are used for the exhaustive enumeration
ALPHA16 = 'a()[]{},1*+?|\\^$'
BUDGET = 200000


def classify(pat):
    """coarse class of a pattern string, used in violation keys so that one defect = one key"""
    if isinstance(pat, bytes):
        pat = pat.decode('latin-1')
    cls = []
    if re.search(r'\{[^}]*$', pat):
        cls.append('unterminated-brace')
    m = re.search(r'\{(\d*),(\d+)\}', pat)
    if m and m.group(1) and int(m.group(1)) > int(m.group(2)):
        cls.append('inverted-bounds')
    if re.search(r'\d{9,}', pat):
        cls.append('huge-bound')
    if pat.endswith('\\') and not pat.endswith('\\\\'):
        cls.append('trailing-backslash')
    if '\\>' in pat or '\\<' in pat:
        cls.append('word-anchor')
    if '[' in pat and not re.search(r'\[[^\]]*\]', pat):
        cls.append('unterminated-bracket')
    return '+'.join(cls) or 'other'


def last_pat(err):
    m = None
    for m in re.finditer(rb'^PAT (\d+) (.*)$', err, re.M):
        pass
    return (int(m.group(1)), m.group(2)) if m else (None, None)


def run_watched(argv, stdin, idle, total):
    """run the probe, watching its stderr (one 'PAT n pattern' line before each pattern): no new line for `idle` seconds, or
    `total` seconds in all, ends it with timed_out set"""
    import subprocess, time, select, os as _os
    t0 = time.time()
    p = subprocess.Popen(argv, stdin=subprocess.PIPE, stdout=subprocess.PIPE, stderr=subprocess.PIPE, env=common.base_env('/tmp'), start_new_session=True)
    try:
        p.stdin.write(stdin)
        p.stdin.close()
    except OSError:
        pass
    out, err = [], []
    last = time.time()
    fds = {p.stdout.fileno(): out, p.stderr.fileno(): err}
    for fd in fds:
        _os.set_blocking(fd, False)
    timed_out = False
    open_fds = set(fds)
    while open_fds:
        rl, _, _ = select.select(list(open_fds), [], [], 1.0)
        for fd in rl:
            try:
                data = _os.read(fd, 65536)
            except BlockingIOError:
                continue
            if not data:
                open_fds.discard(fd)
                continue
            fds[fd].append(data)
            if fd == p.stderr.fileno():
                last = time.time()
        now = time.time()
        if now - last > idle or now - t0 > total:
            timed_out = True
            break
    if timed_out:
        try:
            _os.killpg(p.pid, 9)
        except OSError:
            pass
    rc = p.wait()
    e = b''.join(err)
    return common.Result(rc, b''.join(out), e[-20000:], timed_out, time.time() - t0)


def run_shard(args):
    exe, alpha, maxlen, shard, nshards = args
    resume = 0
    bad = []
    stats = {'npat': 0, 'ncomp': 0, 'nrstr': 0, 'nmatch': 0, 'ncut': 0, 'nanom': 0, 'crashes': 0, 'hangs': 0}
    restarts = 0
    while True:
        cmd = 'c11enum %s %d %d %d %d %d\n' % (alpha.encode().hex(), maxlen, shard, nshards, BUDGET, resume)
        r = run_watched([exe], cmd.encode(), idle=60, total=900)
        out = r.out.decode('latin-1')
        for l in out.split('\n'):
            if l.startswith('ANOM'):
                f = dict(x.split('=', 1) for x in l.split()[2:] if '=' in x)
                pat = bytes.fromhex(f.get('pat', '')) if f.get('pat', '-') not in ('-', '~') else b''
                bad.append(('offsets-out-of-range:' + classify(pat), 'pattern %r: %s' % (pat, l), {'pattern': pat, 'detail': l}))
        m = re.search(r'DONE npat (\d+) ncomp (\d+) nrstr (\d+) nmatch (\d+) ncut (\d+) nanom (\d+)', out)
        if m:
            for k, v in zip(('npat', 'ncomp', 'nrstr', 'nmatch', 'ncut', 'nanom'), m.groups()):
                stats[k] += int(v)
            break
        cnt, pat = last_pat(r.err)
        if cnt is None or cnt <= resume:
            bad.append(('probe:lost', 'c11enum shard %d died without progress: rc=%s %s' % (shard, r.rc, r.err[-300:]), {}))
            break
        rep = common.san_report(r)
        if r.timed_out:
            # no new pattern announced for a minute (each match is bounded by the step budget): run that pattern once more on its own
            r1 = common.run([exe], ('c11one %s %d\n' % (pat.hex() or '-', BUDGET)).encode(), env=common.base_env('/tmp'), timeout=90)
            if r1.timed_out:
                stats['hangs'] += 1
                bad.append(('hang:' + classify(pat), 'pattern %r: compile or match did not finish (no progress for 60 s, and again 90 s on its own)' % pat, {'pattern': pat}))
                if stats['hangs'] >= 2:
                    break       # (two patterns that never finish are enough to call this shard; the rest would take hours)
        elif rep:
            stats['crashes'] += 1
            bad.append((rep + ':' + classify(pat), 'pattern %r: %s' % (pat, r.err[-700:].decode('latin-1')), {'pattern': pat}))
        else:
            bad.append(('probe:died', 'pattern %r: probe exited rc=%s without report' % (pat, r.rc), {'pattern': pat}))
        stats['npat'] += 1
        resume = cnt
        restarts += 1
        if restarts > 3000:
            bad.append(('probe:too-many-crashes', 'shard %d: gave up after %d restarts' % (shard, restarts), {}))
            break
    return stats, bad


def run_ones(args):
    """arbitrary byte-string patterns through c11one, resuming after crashes"""
    exe, pats = args
    bad = []
    done = 0
    nmatch = 0
    ncomp = 0
    i = 0
    while i < len(pats):
        text = ''.join('c11one %s %d\n' % (p.hex() or '-', BUDGET) for p in pats[i:])
        r = common.run([exe], text.encode(), env=common.base_env('/tmp'), timeout=300)
        lines = [l for l in r.out.decode('latin-1').split('\n') if l]
        k = 0
        for l in lines:
            if l.startswith('ANOM'):
                p = pats[i + k] if i + k < len(pats) else b''
                bad.append(('offsets-out-of-range:' + classify(p), 'pattern %r: %s' % (p, l), {'pattern': p}))
            elif l.startswith('one'):
                k += 1
                m = re.search(r'ncomp (\d+) nmatch (\d+)', l)
                if m:
                    ncomp, nmatch = int(m.group(1)), int(m.group(2))
        done += k
        if i + k >= len(pats):
            break
        p = pats[i + k]
        rep = common.san_report(r)
        if r.timed_out:
            bad.append(('hang:' + classify(p), 'pattern %r: compile or match did not finish (watchdog)' % p, {'pattern': p}))
        elif rep:
            bad.append((rep + ':' + classify(p), 'pattern %r: %s' % (p, r.err[-700:].decode('latin-1')), {'pattern': p}))
        else:
            bad.append(('probe:died', 'pattern %r rc=%s' % (p, r.rc), {'pattern': p}))
        i += k + 1
        done += 1
    return done, ncomp, nmatch, bad


def directed_pool():
    P = ['[', '[a', '[^', '[]', '[]a', '[[:alpha:]', '[[:', '[a-', '[a-]', '[z-a]', '(', ')', '(a', 'a)', '((a)', '()', '(|)', '|', 'a|', '|a', '||',
         '\\', 'a\\', '\\\\', '\\<', '\\>', '\\<\\>', 'a\\>', '\\<a', '{', 'a{', 'a{1', 'a{1,', 'a{,', 'a{}', 'a{,}', 'a{1,2', 'a{3,1}', 'a{0}', 'a{0,0}', 'a{1}{2}',
         'a{128}', 'a{129}', 'a{127,128}', 'a{0,128}', 'a{0,129}', 'a{,129}', 'a{99999999999}', 'a{1,99999999999}', 'a{2147483648}', 'a**', 'a*+', 'a+*?', '*', '+a', '?',
         '^*', '$*', '^^', '$$', 'a^', '$a', '.*.*.*.*x', '(a*)*', '(a*)+', '(a|)*', '(()*)*', '(a{0,2}){0,2}', '((a{2}){2}){2}', '(((a{8}){8}){8})', 'a{100}{100}',
         '\xc3', 'a\xc3', '[\xc3]', '[\xe2\x82]', '\xe2\x82', '.\xf0\x9f', '[a-\xc3]', '\xff', '[\xff-\xfe]', '\x80', '[^\x80]']
    P += ['\xc1\xa1', '\xc0\xaf', '\xe0\x81\xa1', '\xf0\x80\x81\xa1', 'b\xc1\xa1', '\xc1\xa1+', '[\xc1\xa1]', '\xe0\x81\xa1\xc3\xa9', '\xf8\x88\x80\x80\x80']     # overlong / invalid encodings of 'a' etc.: equal code point, other length
    # a multi-byte character in front of a repetition operator: the operator binds to the whole character (the lines hold its
    # siblings: same lead bytes, other last byte)
    for ch in ['\xc3\xa9', '\xe2\x82\xac', '\xf0\x9f\x98\x80']:
        for q in ['*', '+', '?', '{0,2}', '{2}', '{1,}']:
            P += [ch + q, 'a' + ch + q, ch + q + 'a', '(' + ch + ')' + q, ch + ch + q, '[' + ch + ']' + q, '^' + ch + q + '$']
    P.append('(' * 63 + 'a' + ')' * 63)
    P.append('(' * 64 + 'a' + ')' * 64)
    P.append('(' * 65 + 'a' + ')' * 65)
    P.append('(a)' * 200)
    P.append('(' * 200 + 'a' + ')' * 200)
    P.append('a{2}' * 50)
    P.append('(a|b)' * 40)
    P.append('[' + 'a' * 300)
    P.append('a' * 600)
    P.append('(((((a{3}){3}){3}){3}){3})')
    P.append('(((a{128}){128}){128}){128}')            # instruction-count estimate exceeds INT_MAX
    P.append('((((a{128}){128}){128}){128}){128}')
    P.append('(((a{128}){128}){128}){16}')
    P.append('(((a{0,128}){0,128}){0,128}){0,128}')
    for k in (2, 3, 5, 17, 33, 64, 65, 96, 127):      # products that wrap to a negative count, to a small positive one, to zero
        P.append('(((a{128}){128}){128}){%d}' % k)
        P.append('((((a{128}){128}){128}){16}){%d}' % k)
    BIG = '((a{128}){128}){16}'
    P.append('(' + BIG * 8 + '){128}')        # children that each reach the cap, added up, then multiplied again
    P.append('(' + BIG * 16 + '){128}')
    P.append('((' + BIG * 4 + '){2}' + BIG * 4 + '){100}')
    P.append('(((a{128}){128}){128})' * 2100)      # each factor saturates the estimate; their sum must not overflow either
    return [p.encode('latin-1') for p in P]


def run_binary(args):
    vi, pat, form = args
    # pattern typed into the real binary (only valid UTF-8, NUL/newline free, as the editor's input is)
    if form in ('s', 's-noic'):
        script = (b'se noic\n' if form == 's-noic' else b'') + b'%s/' + pat.replace(b'/', b'\\/') + b'/x/g\nw! out\n'
        r, d = common.run_ex(vi, script, files={'f1': 'aa1,9 ab(a)\nééa€\néèa€₭ 😀😁\n'.encode()}, timeout=60)
    elif form == 'g':
        script = b'g/' + pat.replace(b'/', b'\\/') + b'/p\n'
        r, d = common.run_ex(vi, script, files={'f1': 'aa1,9 ab(a)\nééa€\néèa€₭ 😀😁\n'.encode()}, timeout=60)
    elif form in ('addr', 'addr-open', 'raddr-open', 'g-open', 's-open', 'nested', 'two'):
        # the pattern as an ex address, with and without its closing delimiter (the command line then ends inside the pattern), in
        # the unfinished forms of :g and :s, in an address inside a global's command list, and twice in one range
        q = pat.replace(b'/', b'\\/')
        script = {'addr': b'/' + q + b'/p\n', 'addr-open': b'/' + q + b'\n', 'raddr-open': b'?' + pat.replace(b'?', b'\\?') + b'\n', 'g-open': b'g/' + q + b'\n', 's-open': b's/' + q + b'\n',
                  'nested': b'g/a/ /' + q + b'\n', 'two': b'/' + q + b'/;/' + q + b'\n'}[form]
        r, d = common.run_ex(vi, script, files={'f1': 'aa1,9 ab(a)\nééa€\néèa€₭ 😀😁\n'.encode()}, timeout=60)
    elif form == 'vi-colon':
        r, d = common.run_vi(vi, b':/' + pat.replace(b'/', b'\\/') + b'\n' + b':1;?' + pat.replace(b'?', b'\\?') + b'\n', files={'f1': 'aa1,9 ab(a)\nééa€\néèa€₭ 😀😁\n'.encode()}, timeout=60)
    elif form == '?':
        r, d = common.run_vi(vi, b'G?' + pat + b'\n', files={'f1': 'aa1,9 ab(a)\nééa€\néèa€₭ 😀😁\n'.encode()}, timeout=60)
    else:
        r, d = common.run_vi(vi, b'/' + pat + b'\n', files={'f1': 'aa1,9 ab(a)\nééa€\néèa€₭ 😀😁\n'.encode()}, timeout=60)
    out = common.readf(d, 'out')
    common.rmcase(d)
    if out is not None:
        try:
            out.decode('utf-8', 'strict')
        except UnicodeDecodeError as e:
            return ('binary:invalid-utf8:' + classify(pat), 'pattern %r typed as %s: the substituted text is not valid UTF-8: %r' % (pat, form, out[max(0, e.start - 8):e.end + 8]), {'pattern': pat, 'form': form})
    rep = common.san_report(r)
    if r.timed_out:
        return ('hang:binary:' + classify(pat), 'pattern %r typed as %s: editor did not reach quit' % (pat, form), {'pattern': pat, 'form': form})
    if rep:
        return (rep + ':' + classify(pat), 'pattern %r typed as %s: %s' % (pat, form, r.err[-600:].decode('latin-1')), {'pattern': pat, 'form': form})
    return None


def run(tier, V):
    exe = build('asan', probe=PROBE)
    vi = build('asan')
    cov = {}
    # exhaustive
    maxlen = 5 if tier == 'quick' else 6
    nsh = 64
    res = pmap(run_shard, [(exe, ALPHA16, maxlen, s, nsh) for s in range(nsh)])
    tot = {}
    for st, bad in res:
        for k, v in st.items():
            tot[k] = tot.get(k, 0) + v
        for key, what, wit in bad:
            V.violation(key, what, wit)
    # length+1 slice chosen by seed (quick) so that repeated runs cover more of the next level
    extra = {}
    if tier == 'quick':
        sl = common.seed() % 32
        res = pmap(run_shard, [(exe, ALPHA16, maxlen + 1, sl * 16 + s, 512) for s in range(16)])
        for st, bad in res:
            for k, v in st.items():
                extra[k] = extra.get(k, 0) + v
            for key, what, wit in bad:
                V.violation(key, what, wit)
    # random byte strings
    R = rng('c11')
    nrand = 20000 if tier == 'quick' else 400000
    pats = []
    meta = ALPHA.encode()
    for _ in range(nrand):
        L = R.choice([R.randint(1, 8), R.randint(1, 8), R.randint(8, 64)])
        k = R.random()
        if k < 0.5:
            p = bytes(R.choice(meta) for _ in range(L))
        elif k < 0.8:
            p = bytes(R.choice(meta) if R.random() < 0.6 else R.randint(1, 255) for _ in range(L))
        else:
            p = bytes(R.randint(1, 255) for _ in range(L))
        p = p.replace(b'\n', b'n')
        # resource exhaustion is not memory unsafety: cap the nesting product of bounded repeats
        prod = 1
        for m in re.finditer(rb'\{(\d*),?(\d*)\}?', p):
            try:
                prod *= max(1, int(m.group(1) or 0), int(m.group(2) or 0))
            except ValueError:
                pass
        if prod > 20000:
            continue
        pats.append(p)
    pool = directed_pool()
    jobs = [(exe, pats[i:i + 500]) for i in range(0, len(pats), 500)] + [(exe, pool)]
    res = pmap(run_ones, jobs)
    nones = sum(r[0] for r in res)
    for r in res:
        for key, what, wit in r[3]:
            V.violation(key, what, wit)
    # the directed pool typed into the real binary
    bjobs = []
    for p in pool:
        try:
            p.decode('utf-8')
        except UnicodeDecodeError:
            continue
        if b'\n' in p or len(p) > 400:
            continue
        for form in ('s', 's-noic', 'g', '/', '?', 'addr', 'addr-open', 'raddr-open', 'g-open', 's-open', 'nested', 'two', 'vi-colon'):
            bjobs.append((vi, p, form))
    bres = pmap(run_binary, bjobs)
    for b in bres:
        if b:
            V.violation(*b)
    cov.update({'exhaustive_alphabet': ALPHA16, 'exhaustive_maxlen': maxlen, 'exhaustive': True, 'enum_stats': tot, 'next_length_slice_stats': extra,
                'random_patterns': nones, 'directed_pool': len(pool), 'binary_runs': len(bjobs)})
    cov['evaluations'] = tot.get('npat', 0) + extra.get('npat', 0) + nones + len(bjobs)
    cov['distinct_nontrivial'] = tot.get('ncomp', 0) // 2 + extra.get('ncomp', 0) // 2
    cov['rule'] = ('EVERY string of length 1..%d over the 16 symbols %r (and a seed-chosen 1/32 slice of the strings up to length %d in quick), each compiled by rset_make and rstr_make (icase on/off) and '
                   'matched against 7 lines x 2 flag sets with range/char-boundary assertions in the probe, under ASan+UBSan with a %d-step budget; + %d random byte strings (1..255, len<=64) '
                   '+ a directed pool of %d malformed constructs (incl. quantified multi-byte characters and nesting products that wrap the instruction count), also typed into the real binary as :s, :g, / and ?, as an ex address with and without its closing delimiter, as unfinished :g and :s, inside the command list of a global and at the vi : prompt.  non-trivial = the pattern compiled (so it was also matched).' % (
                       maxlen, ALPHA16, maxlen + 1, BUDGET, nones, len(pool)))
    cov['samples'] = [p.decode('latin-1') for p in pool[30:36]] + [pats[0].decode('latin-1'), pats[1].decode('latin-1')]
    assumptions = ['ASan red zones catch overflows of the program/jmpend/mark arrays only when they leave the object; UBSan catches signed overflow and out-of-bounds indexing of fixed arrays',
                   'termination is observed as "finished within the step budget and the watchdog"',
                   'nested bounded repetitions whose product exceeds 20000 instructions are not generated (resource exhaustion is not memory unsafety); the overflow case is kept as a directed input']
    return cov, assumptions
