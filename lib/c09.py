"""C09: repeat, macro and count: '.', '@r' and N-fold equal retyping.

Twin-run differential monitor on the real `vi -v` (ASan+UBSan): run A uses '.', 'N.' or '@r',
run B retypes the keys; both end by inserting a marker at the cursor, revealing registers by
putting them at the end of the buffer, and writing the buffer.  The oracle is equality of the two
executions - no model of the commands.
"""
import common, gen
from common import pmap, rng, build

MARK = '\ue000'          # private-use code point that no generated text contains
DOTSENT = b'%%DOT%%'
REVEAL = b'G"ap"bp"1p"2p""p'
# register '.' right after the part under test, between two sentinel lines (ex puts do not disturb the repeat buffer)
GRABDOT = b'mz:$pu y\n:$pu .\n:$pu y\n`z'


def change_cmd(R, kind):
    while True:
        keys, cls = gen.vi_edit(R, kind, filters=True)
        if cls in ('ex', 'repeat'):
            continue
        if cls == 'simple' and keys.lstrip('"abAB1\\x0123456789')[:2] in ('yy',) and R.random() < 0.7:
            continue
        return keys, cls


def make_case(idx):
    R = rng('c09', idx)
    kind = R.choice(['ltr', 'ltr', 'ascii'])
    lines = gen.rand_buffer(R, kind, 8, allow_empty=False)
    while len(lines) < 3:
        lines.append(gen.rand_line(R, kind))
    prefix = ''.join(k for k, _ in gen.vi_program(R, R.randint(0, 3), kind) if '.' not in k and '@' not in k)
    c, cls = change_cmd(R, kind)
    moves = ''.join(gen.vi_motion(R) for _ in range(R.randint(0, 2)))
    variant = R.choice(['dot', 'dot', 'ndot', 'ndot', 'macro', 'macro2', 'bigdot', 'longmacro', 'junk', 'emptydel', 'faildot', 'bigmacro', 'dotreg', 'nestmacro', 'digitmacro', 'bsmacro', 'dotcol'])
    regfile = rfile = None
    if variant == 'longmacro':
        # a long register whose last key is '.', repeating a long insert: each fits the 4 KiB input queue, and the
        # part of the register already consumed is no reason to cut the repeated command short
        L = R.choice([1000, 2040, 2047, 2050, 2100, 3000, 4000])
        c = R.choice('iaAIoO') + ''.join(R.choice('abc xyz,.') for _ in range(L)) + '\x1b'
        cls = 'insert'
        moves = R.choice(['', 'j', 'k', 'w', '0'])
        # (a sourced file is one ex command of at most 512 bytes: the register is filled through a pipe instead)
        regfile = b'rx r cat rfile\n'
        rfile = (c + moves + '.' + '\n').encode()
        a = prefix + '@r'
        b = prefix + c + moves + c + '\n'
    elif variant == 'junk':
        # an operator followed by a key that is not a motion is no command at all; the change before it stays the one '.' repeats
        junk = R.choice(['dx', 'cJ\x1b', 'dp', '2dx', '"adP', 'yx', '>x', 'd~', 'dX', 'cD\x1b', 'g~x', 'dJ', '<p'])
        if R.random() < 0.5:
            # commands that succeed without being a change (undo, yanks, marks, status, a filter or search prompt that is given up) do not take its place either
            junk = R.choice(['u', 'u', 'u\x12', '!!\x1b', '!j\x1b', '!!\x03', 'ma', '\x07', 'gd', ':\x1b', '/\x1b', '\x0c', 'zz', ':ec hi\n'])      # (yanks are not in the list: neatvi records them for '.', Appendix A)
        pass
    # right after the first c register '.' is copied to a file (through a pipe and back): c counts as a change only if it holds exactly c's keys
    c1 = c + '\x1b:rx . tee dot1\n'
    if variant == 'emptydel':
        # a delete that has nothing to delete where it is typed (x on an empty line, X in column 1 ...) is still the last change: '.' repeats
        # IT, not the change before it
        lines[1] = ''
        c0 = R.choice(['dw', 'dd', 'ix\x1b', '~', 'rZ'])
        c = R.choice(['x', 'x', 'X', 'D', 'dl', 'dh', 'd0', '"bx', '2x'])
        goto = ':2\n' if c in ('x', 'D', 'dl', '"bx', '2x') else R.choice([':1\n0', ':3\n0'])
        later = R.choice([':3\nw', ':1\n$', ':3\n2l', 'G$'])
        a = prefix + c0 + goto + c + later + R.choice(['.', '2.'])
        b = prefix + c0 + goto + c + later + (c if a.endswith(later + '.') else c * 2)
        cls = 'simple'
    if variant == 'bigmacro':
        # N@r with N times the register far beyond the 4 KiB input queue: still N executions, one after the other
        body = c + moves
        N = R.choice([100, 120, 300, 4200 // max(1, len(body.encode()) + 1) + R.choice([0, 1, 5])])
        N = max(2, min(N, 600))
        regfile = ('rs r\n' + body + '\n.\n').encode()
        a = prefix + '%d@r' % N
        b = prefix + (body + '\n') * N
    elif variant == 'nestmacro':
        # a counted register that itself executes another register: N times the contents, each time with the inner one expanded in place
        t2 = R.choice(['x', 'j', 'w', 'dd', 'ix\x1b', '~', ''])
        N = R.choice([2, 2, 3, 5])
        regfile = ('rs q\n' + c.replace('\n.\n', '\n,\n') + '\n.\nrs r\n@q' + t2 + '\n.\n').encode()
        a = prefix + moves + '%d@r' % N
        b = prefix + moves + (c.replace('\n.\n', '\n,\n') + '\n' + t2 + '\n') * N
    elif variant == 'digitmacro':
        # a counted register whose text ends in digits (a count still waiting for its command): typed N times, the digits
        # of one copy are the count of the next copy's first command
        d = R.choice(['1', '2', '12'])
        N = R.choice([2, 3])
        regfile = b'rx r cat rfile\n'
        rfile = (c + d).encode()
        a = prefix + moves + '%d@r' % N
        b = prefix + moves + (c + d) * N
    elif variant == 'bsmacro':
        # a register with an extended (backslash) name: counted, and repeated with @@
        t2 = R.choice(['x', 'j', 'w', 'dd', '~', ''])
        nm = R.choice('abq')
        N = R.choice([2, 3])
        regfile = ('rs \\' + nm + '\n' + c.replace('\n.\n', '\n,\n') + t2 + '\n.\n').encode()
        how = R.choice(['count', 'again', 'both'])
        a = prefix + moves + {'count': '%d@\\%s' % (N, nm), 'again': '@\\%s@@' % nm + ('@@' if N == 3 else ''), 'both': '@\\%s%d@@' % (nm, N - 1)}[how]
        b = prefix + moves + (c.replace('\n.\n', '\n,\n') + t2 + '\n') * N
    elif variant == 'dotcol':
        # a repeat that fails where it is typed (too few characters left, no such target) changes nothing - not the column j and k return to either
        lines[0:3] = ['abcdefghijklmnopqrstuvwxyz0123456789', 'ab', 'ABCDEFGHIJKLMNOPQRSTUVWXYZ0123456789']
        c = R.choice(['5rX', 'dfq', '3x', 'ct0Z\x1b', 'd2fc'])
        cls = 'simple'
        col = R.choice([8, 14, 20])
        c1 = c + '\x1b:rx . tee dot1\n'
        a = ':1\n%d|' % col + c1 + ':1\n%d|' % col + 'j.' + R.choice(['j', 'k', 'jk'])
        b = ':1\n%d|' % col + c1 + ':1\n%d|' % col + 'j' + c + '\x1b' + a[-1:] if False else ':1\n%d|' % col + c1 + ':1\n%d|' % col + 'j' + c + '\x1b' + a.split('j.')[-1]
    elif variant == 'dotreg':
        # register "." is a register like any other for :y; what "." repeats is the last change, not what somebody stored there
        a = prefix + c1 + moves + ':2y .\n' + '.'
        b = prefix + c1 + moves + ':2y .\n' + c
    elif variant == 'faildot':
        # a '.' that has nothing to repeat, or whose repeated command fails, leaves no trace: the next change is recorded as usual
        X = R.choice(['.', '..', 'GJ.1G', '"zp.', '.GJ.', '3.'])
        a = X + prefix + c1 + moves + '.'
        b = X + prefix + c1 + moves + c
    elif variant in ('longmacro', 'emptydel'):
        pass
    elif variant == 'junk':
        a = prefix + c1 + moves + junk + '.'
        b = prefix + c1 + moves + junk + c
    elif variant == 'dot':
        a = prefix + c1 + moves + '.'
        b = prefix + c1 + moves + c
    elif variant == 'ndot':
        n = R.choice([2, 3, 5])
        a = prefix + c1 + moves + '%d.' % n
        b = prefix + c1 + moves + c * n
    elif variant == 'bigdot':
        n = R.choice([50, 200, 4096 // max(1, len(c.encode())) + R.choice([-1, 0, 1, 30])])
        n = max(2, min(n, 1500))
        a = prefix + c1 + moves + '%d.' % n
        b = prefix + c1 + moves + c * n
    elif variant == 'macro':
        # register r holds one or several commands; @r must equal typing them (register text ends with a newline)
        body = c + ''.join(change_cmd(R, kind)[0] if R.random() < 0.5 else gen.vi_motion(R) for _ in range(R.randint(0, 2)))
        if '\n.\n' in body or body.startswith('.\n'):
            body = body.replace('\n.\n', '\n,\n')
        regfile = ('rs r\n' + body + '\n.\n').encode()
        a = prefix + moves + '@r'
        b = prefix + moves + body + '\n'
    else:
        # a register that itself contains '.' (repeat of the change typed before) followed by more keys
        tail = R.choice(['x', 'j', 'w', 'dd', 'ix\x1b', '~'])
        body = '.' + tail
        regfile = ('rs r\n' + body + '\n.\n').encode()
        a = prefix + c1 + moves + '@r'
        b = prefix + c1 + moves + c + tail + '\n'
    tail = b'\x1b' + GRABDOT + ('i' + MARK + '\x1b').encode() + REVEAL + b':w! out\n'
    return {'lines': lines, 'a': a.encode() + tail, 'b': b.encode() + tail, 'c': c, 'cls': cls, 'variant': variant, 'regfile': regfile, 'rfile': rfile, 'idx': idx}


def run_one(vi, case, keys):
    files = {'f1': gen.buf_bytes(case['lines'])}
    files['regs'] = b'rs y\n' + DOTSENT + b'\n.\n' + (case['regfile'] or b'')
    if case.get('rfile'):
        files['rfile'] = case['rfile']
    envx = {'EXINIT': 'so regs'}
    r, d = common.run_vi(vi, keys, files=files, timeout=90, envx=envx)
    out = common.readf(d, 'out')
    dot1 = common.readf(d, 'dot1')
    common.rmcase(d)
    return r, out, dot1


def run_case(args):
    vi, idx = args
    case = make_case(idx)
    ra, oa, da = run_one(vi, case, case['a'])
    rb, ob, db = run_one(vi, case, case['b'])
    wit = {'index': idx, 'lines': case['lines'], 'variant': case['variant'], 'change': case['c'], 'keys_A': case['a'], 'keys_B': case['b'], 'register_r': case['regfile']}
    for r in (ra, rb):
        rep = common.san_report(r)
        if rep:
            return (rep, 'sanitizer/crash: %s' % r.err[-400:].decode('latin-1'), wit, case)
    if ra.timed_out or rb.timed_out or ob is None:
        return ('inconclusive', None, wit, case)
    if oa is None:
        # run B reached the final :w, run A (same keys but for the repeat) did not: the repeat left the editor in another state
        return ('repeat:%s' % case['variant'], 'variant %s, change %r: run A never executed the final :w (run B did)' % (case['variant'], case['c'][:80]), wit, case)
    orig = gen.buf_bytes(case['lines'])
    if case['variant'] in ('dot', 'ndot', 'bigdot', 'macro2', 'junk', 'dotreg', 'faildot', 'dotcol') and not (da == db == case['c'].encode()):
        return ('ok-trivial', None, None, case)      # the first c was not taken as one command (failed motion: the rest of its keys ran on their own)
    if case['variant'] not in ('macro', 'bigmacro', 'nestmacro', 'digitmacro', 'bsmacro'):
        # the change must have been taken as ONE repeatable command: register '.' (revealed at the end of run B) holds exactly its keys
        parts = ob.split(DOTSENT + b'\n')
        dot = parts[1][:-1] if len(parts) >= 3 else None
        if dot != case['c'].encode():
            return ('ok-trivial', None, None, case)
    if oa != ob:
        la, lb = oa.split(b'\n'), ob.split(b'\n')
        i = next((k for k in range(min(len(la), len(lb))) if la[k] != lb[k]), min(len(la), len(lb)))
        key = 'repeat:%s' % case['variant']
        if case['variant'] == 'bigdot':
            key = 'repeat:count-exceeds-queue'
        return (key, 'variant %s, change %r on %r: run A (%s) and run B (retyped) differ at line %d: A=%r B=%r (A has %d lines, B %d)' % (
            case['variant'], case['c'], case['lines'][:6], common.show(case['a'][:-40], 80), i, common.show(la[i] if i < len(la) else b'<none>', 80),
            common.show(lb[i] if i < len(lb) else b'<none>', 80), len(la), len(lb)), wit, case)
    nontrivial = ob.replace(MARK.encode(), b'') != orig
    return ('ok' if nontrivial else 'ok-trivial', None, None, case)


def run(tier, V):
    vi = build('asan')
    n = 1500 if tier == "quick" else 15000
    base = common.seed() * 67867967
    res = pmap(run_case, [(vi, base + i) for i in range(n)])
    stats = {}
    classes = {}
    for key, what, wit, case in res:
        k = key if key in ('ok', 'ok-trivial', 'inconclusive') else 'violation'
        stats[k] = stats.get(k, 0) + 1
        if key == 'ok':
            classes[case['variant'] + '/' + case['cls']] = classes.get(case['variant'] + '/' + case['cls'], 0) + 1
        if key == 'inconclusive':
            V.inconclusive += 1
        elif k == 'violation':
            V.violation(key, what, wit)
    cov = {'evaluations': 2 * n, 'distinct_nontrivial': stats.get('ok', 0), 'pairs': n, 'outcomes': stats, 'nontrivial_by_variant_and_class': classes,
           'rule': ('%d pairs of executions: A = prefix, change c, moves, then "." / "N." / "@r" ; B = the same with the keys of c retyped (N times / the register\'s contents typed).  c ranges over the change commands of the vi grammar '
                    '(operators x motions, counts, register prefixes, inserts with multi-byte text and editing keys, puts, joins, replace, case, shifts, filters that prompt); N in {2,3,5} and large N around the 4 KiB input queue; long registers ending in "." after long inserts; an operator plus non-motion key between the change and "."; deletes typed where they have nothing to delete and repeated where they have; a "." with nothing to repeat before the change; N@r far beyond the queue; register "." overwritten by :y before "."; a register that runs another register, a register ending in digits, a backslash-named register - each with counts and @@; successful non-changes (undo, marks, given-up prompts) between the change and "."; a repeat that fails on a short line followed by j/k (remembered column); registers with several '
                    'commands and registers that contain "." themselves.  compared: written file incl. a cursor marker and registers a, b, 1, 2, unnamed put at the end.  non-trivial = the text changed.' % n),
           'samples': [{'variant': c['variant'], 'A': common.show(c['a'], 80), 'B': common.show(c['b'], 80)} for _, _, _, c in res[:4]]}
    assumptions = ['equality of two executions of the same binary is the oracle; both runs share all defects that do not involve repetition',
                   'the register used for @ is loaded with :rs (its text ends with a newline, which run B types as well)']
    return cov, assumptions


def REPLAY(w):
    return run_case((build('asan'), w['index']))[:2]
