"""C03: writes never clobber foreign or newer files; failures surface and stay dirty.

Fault enumeration: an LD_PRELOAD shim fails (or cuts short) the n-th open/write/close of the
save's system-call sequence; a dry run gives the sequence, then EVERY position x EVERY fault kind
is executed, one fault per run, on the real (plain) binary.  Overwrite guards: truth table over
target identity x modification time x '!'.
"""
import os, re, subprocess, time
import common
from common import pmap, rng, build, VERIF

LEVEL = 'fault_enumeration'
ERR_KINDS = ['ENOSPC', 'EIO', 'EINTR', 'EDQUOT', 'EACCES']
SHORT_KINDS = ['short1', 'shorthalf', 'shortallbut1']
S = lambda k: b'\x01\x02S%d\x03' % k


def build_shim():
    so = os.path.join(common.tmp_root(), 'faultshim.so')
    if not os.path.exists(so):
        r = subprocess.run(['gcc', '-shared', '-fPIC', '-O2', '-o', so, os.path.join(VERIF, 'shim', 'faultshim.c'), '-ldl'], capture_output=True, text=True)
        if r.returncode:
            raise common.HarnessError('cannot build faultshim: ' + r.stderr[-500:])
    return so


def buffers():
    """(name, file content, edit script making it dirty, expected text after the edit)"""
    out = []
    out.append(('empty', b'x\n', b'1d\n', b''))              # buffer emptied: no write call at all
    out.append(('one-line', b'one\n', b'1s/^/X/\n', b'Xone\n'))
    small = b''.join(b'line %d of a small buffer\n' % i for i in range(40))
    out.append(('one-batch', small, b'1s/^/X/\n', b'X' + small))
    multi = b''.join(b'%04d %s\n' % (i, b'x' * (i % 70)) for i in range(300))     # ~ 3 batches
    out.append(('multi-batch', multi, b'1s/^/X/\n', b'X' + multi))
    longl = b'short\n' + b'L' * 5000 + b'\nmid\n' + b'M' * 4096 + b'\nend\n'       # direct writes of long lines
    out.append(('long-lines', longl, b'1s/^/X/\n', b'X' + longl))
    mix = b''.join((b'y' * n) + b'\n' for n in [10, 4090, 3, 5000, 0, 100, 4095, 1])
    out.append(('mixture', mix, b'$s/^/X/\n', mix[:-2] + b'Xy\n'))
    return out


def seg(out, a, b):
    """stdout between sentinel a and sentinel b (a=None: from the start)"""
    s = out
    if a is not None:
        if S(a) not in s:
            return None
        s = s.split(S(a), 1)[1]
    if b is not None:
        if S(b) not in s:
            return None
        s = s.split(S(b), 1)[0]
    return s


def run_ex(vi, so, script, files, fault=None, mt=None, links=None):
    d = common.case_dir('s')
    common.write_files(d, files)
    for name, tgt in (links or {}).items():
        os.symlink(tgt, os.path.join(d, name))
    if mt:
        for name, t in mt.items():
            os.utime(os.path.join(d, name), (t, t))
    env = common.base_env(d)
    log = os.path.join(d, 'faultlog')
    env.update({'LD_PRELOAD': so, 'NEATVI_FAULT_LOG': log})
    if fault:
        env['NEATVI_FAULT'] = fault
    r = common.run([vi, '-s', '-e', 'f1'], script + b'\n' + common.EX_QUIT, d, env, 30)
    lg = common.readf(d, 'faultlog') or b''
    return r, d, lg.decode('latin-1')


def leaked(lg):
    """save descriptors the shim saw opened but never closed"""
    import re
    opened = [int(m.group(1)) for m in re.finditer(r'^open \S+ -> (\d+)$', lg, re.M)]
    closed = [int(m.group(1)) for m in re.finditer(r'^close fd=(\d+) ', lg, re.M)]
    return len(opened) - len(closed)


def fault_case(args):
    """one fault, two runs: (1) stop right after the faulted :w to inspect the file, (2) continue with quit / retry"""
    vi, so, bname, content, edit, want, cmd, fault, phase = args
    res = {'bname': bname, 'cmd': cmd, 'fault': fault, 'bad': [], 'fired': False}
    wit = {'buffer': bname, 'command': cmd, 'fault': fault}
    is_short = 'short' in fault and ',' not in fault     # a short count followed by an error is a failure
    # run 1: inspect the file right after the command
    script1 = edit + S(0) + b'\n' if False else b'ec ' + S(0) + b'\n' + edit + cmd.encode() + b'\nec ' + S(1) + b'\n'
    r, d, lg = run_ex(vi, so, script1 + b'q!\n', {'f1': content}, fault)
    file1 = common.readf(d, 'f1')
    common.rmcase(d)
    res['fired'] = lg.count('INJECTED') >= fault.count(',') + 1
    if not res['fired']:
        return res
    if leaked(lg) > 0:
        # every failed save that keeps its descriptor brings the day nearer on which no file can be opened any more: retries then fail for good
        res['bad'].append(('descriptor-leak', 'buffer %s, %s with fault %s: the descriptor of the failed save was never closed' % (bname, cmd, fault), wit))
    if r.timed_out or S(0) not in r.out:
        res['bad'].append(('harness:no-output', 'no sentinel / timeout in run 1', wit))
        return res
    quitting = cmd.startswith(('wq', 'x'))
    s01 = seg(r.out, 0, 1)
    alive_after = s01 is not None
    msg = s01 if s01 is not None else seg(r.out, 0, None)
    # a quitting command succeeds iff the editor exits; a plain write iff it prints its [w] line
    success = (not alive_after) if quitting else (b'[w]' in (msg or b''))
    if success:
        if file1 != want:
            res['bad'].append(('success-but-file-differs', 'buffer %s, %s with fault %s: success reported but the file differs from the written lines (%d vs %d bytes)' % (bname, cmd, fault, len(file1 or b''), len(want)), wit))
        if not is_short:
            res['bad'].append(('failure-not-reported', 'buffer %s, %s with fault %s: an error return was injected but the command %s' % (bname, cmd, fault, 'exited as if saved' if quitting else 'reported success'), wit))
    else:
        if is_short:
            res['bad'].append(('short-write-not-retried', 'buffer %s, %s with fault %s: a short count (no error) made the command fail: %r' % (bname, cmd, fault, (msg or b'')[:80]), wit))
        if not (msg or b'').replace(b'"f1"  [=', b'').strip():
            res['bad'].append(('failure-silent', 'buffer %s, %s with fault %s: neither success nor failure was reported' % (bname, cmd, fault), wit))
    if is_short or success:
        return res
    if phase == 2:
        # :xa saves the current buffer twice (ec_write, then the loop over all buffers); a fault in the
        # second save hits a file that already holds the text: it must not exit and must not damage the file
        if file1 != want:
            res['bad'].append(('second-save-damaged-file', 'buffer %s, %s with fault %s: file differs from the text after the failed second save' % (bname, cmd, fault), wit))
        return res
    # run 2: stays dirty (quit refused), a retry can succeed, then quit works
    script2 = (b'ec ' + S(0) + b'\n' + edit + cmd.encode() + b'\nec ' + S(1) + b'\nq\nec ' + S(2) + b'\nb\nec ' + S(3) + b'\nw!\nec ' + S(4) + b'\nq\nec ' + S(5) + b'\n')
    r, d, lg = run_ex(vi, so, script2, {'f1': content}, fault)
    file2 = common.readf(d, 'f1')
    common.rmcase(d)
    if seg(r.out, 1, 2) is None:
        res['bad'].append(('not-dirty-after-failure', 'buffer %s, %s with fault %s: :q after the failed save was not refused (the editor exited; unsaved text lost)' % (bname, cmd, fault), wit))
        return res
    blist = seg(r.out, 2, 3) or b''
    if b'*' not in blist:
        res['bad'].append(('clean-flag-after-failure', 'buffer %s, %s with fault %s: buffer list shows no * after the failed save: %r' % (bname, cmd, fault, blist[:80]), wit))
    retry = seg(r.out, 3, 4)
    if retry is None or b'[w]' not in retry:
        res['bad'].append(('retry-fails', 'buffer %s, %s with fault %s: the retry :w! did not succeed: %r' % (bname, cmd, fault, (retry or b'')[:80]), wit))
    elif file2 != want:
        res['bad'].append(('retry-file-differs', 'buffer %s, %s with fault %s: after a successful retry the file differs from the text (%d vs %d bytes)' % (bname, cmd, fault, len(file2 or b''), len(want)), wit))
    if S(5) in r.out:
        res['bad'].append(('quit-refused-after-retry', 'buffer %s, %s with fault %s: :q refused although the retry succeeded' % (bname, cmd, fault), wit))
    return res


def many_failures_case(args):
    """a long history of failed saves (a full device, an unwritable directory) under a small descriptor limit, then a retry to a healthy target"""
    vi, idx = args
    import resource
    R = rng('c03', 'many', idx)
    nfail = R.choice([40, 70, 120])
    lim = R.choice([24, 32, 48])
    bad_target = R.choice([b'w! /dev/full', b'1,1w! /dev/full', b'w! nodir/x', b'w nodir/x'])
    content = b''.join(b'line %d\n' % i for i in range(R.choice([1, 3, 900])))
    script = b'1s/^/X/\n' + (bad_target + b'\n') * nfail + b'ec ' + S(0) + b'\nw!\nec ' + S(1) + b'\nq\nec ' + S(2) + b'\n'
    d = common.case_dir('s')
    common.write_files(d, {'f1': content})
    pre = lambda: resource.setrlimit(resource.RLIMIT_NOFILE, (lim, lim))
    r = common.run([vi, '-s', '-e', 'f1'], script + common.EX_QUIT, d, common.base_env(d), 60, preexec=pre)
    got = common.readf(d, 'f1')
    common.rmcase(d)
    wit = {'index': idx, 'failures': nfail, 'descriptor_limit': lim, 'command': bad_target.decode()}
    msg = seg(r.out, 0, 1)
    if r.timed_out or msg is None:
        return ('inconclusive', None, wit)
    if b'[w]' not in msg or got != b'X' + content:
        return ('retry-fails-after-many-failures', 'after %d failed "%s" (descriptor limit %d) the retry :w! did not save the text: %r' % (nfail, bad_target.decode(), lim, msg[:80]), wit)
    if S(2) in r.out:
        return ('quit-refused-after-retry', 'after %d failed saves and a good retry :q is refused' % nfail, wit)
    return ('ok', None, wit)


def dry_run(vi, so, content, edit, cmd):
    r, d, lg = run_ex(vi, so, edit + cmd.encode() + b'\nq!\n', {'f1': content})
    common.rmcase(d)
    ops = [l.split()[0] for l in lg.split('\n') if l]
    return ops.count('open'), ops.count('write'), ops.count('close')


def guard_case(args):
    vi, so, name, spec = args
    # spec: dict(target, exists, mtime_rel, bang, foreign_new(bool))
    T0 = 1500000000
    files = {'f1': b'alpha\nbeta\n'}
    mt = {'f1': T0}
    links = None
    if spec.get('symlink'):
        # the edited name is a symbolic link: what counts is the file behind it
        files = {'real': b'alpha\nbeta\n'}
        links = {'f1': 'real'}
    script = b''
    tgt = spec['target']
    if tgt == 'own':
        path = 'f1'
        if spec['mtime_rel'] == 'newer':
            script += b'!touch f1\n'           # now > T0
        elif spec['mtime_rel'] == 'older':
            mt['f1'] = 2000000000               # recorded value lies in the future; touch makes it older
            script += b'!touch f1\n'
    elif tgt == 'foreign':
        path = 'other'
        files['other'] = b'FOREIGN CONTENT\n'
        mt['other'] = {'older': T0 - 1000, 'equal': T0, 'newer': int(time.time()) + 1000, 'zero': 0}[spec['mtime_rel']]      # (zero: 1970-01-01, a legal time)
    else:
        path = 'newfile'
    before = files.get(path if path != 'f1' else 'f1', files.get('real'))
    cmd = ('w%s%s' % ('!' if spec['bang'] else '', '' if path == 'f1' else ' ' + path)).encode()
    script += b'1s/^/X/\nec ' + S(0) + b'\n' + cmd + b'\nec ' + S(1) + b'\n' + cmd + b'\nec ' + S(2) + b'\n'
    r, d, lg = run_ex(vi, so, script + b'q!\n', files, None, mt, links)
    got = common.readf(d, path)
    st = os.stat(os.path.join(d, path)) if os.path.exists(os.path.join(d, path)) else None
    common.rmcase(d)
    msg = seg(r.out, 0, 1)
    wit = {'case': name, 'spec': spec, 'command': cmd}
    if msg is None:
        return ('harness:no-output', 'guard case %s: no sentinels' % name, wit, False)
    wrote = b'[w]' in msg
    must_refuse = (not spec['bang']) and ((tgt == 'foreign') or (tgt == 'own' and spec['mtime_rel'] == 'newer'))
    want = b'Xalpha\nbeta\n'
    msg2 = seg(r.out, 1, 2) or b''
    if must_refuse and b'[w]' in msg2 and b'[w]' not in msg:
        return ('guard:refusal-not-persistent', 'guard case %s: %s was refused once, but repeating the same command replaced the file' % (name, cmd.decode()), wit, True)
    if must_refuse:
        if wrote or got != before:
            return ('guard:clobbered', 'guard case %s: %s must be refused but %s (file now %r)' % (name, cmd.decode(), 'reported success' if wrote else 'changed the file', (got or b'')[:30]), wit, True)
        if tgt == 'foreign' and st and int(st.st_mtime) != mt['other']:
            return ('guard:touched', 'guard case %s: refused but the target mtime changed' % name, wit, True)
        return (None, None, None, True)
    if not wrote:
        return ('guard:refused-legitimate-write', 'guard case %s: %s should be allowed but was refused: %r' % (name, cmd.decode(), msg[:80]), wit, True)
    if got != want:
        return ('guard:file-differs', 'guard case %s: success but file is %r' % (name, (got or b'')[:40]), wit, True)
    return (None, None, None, True)


def multi_guard_case(args):
    """several buffers, some dirty, some of their files replaced or touched on disk behind the editor's back, then a
    save command without '!': a file changed on disk since it was read is never replaced, whichever buffer is current"""
    vi, so, idx = args
    R = rng('c03', 'multi', idx)
    T0 = 1500000000
    nf = R.choice([2, 2, 3])
    names = ['f%d' % i for i in range(1, nf + 1)]
    files = {n: ('%s one\n%s two\n' % (n, n)).encode() for n in names}
    files['alt'] = b'WRITTEN BY SOMEBODY ELSE\n'
    mt = {n: T0 for n in names}
    ondisk = dict(files)
    written = set()
    dirty = {n: R.random() < 0.75 for n in names}
    ext = {n: R.choice([None, None, 'cp', 'touch']) for n in names}
    if not any(ext.values()):
        ext[R.choice(names)] = R.choice(['cp', 'touch'])
    order = names[1:]
    R.shuffle(order)
    script = b''
    if dirty['f1']:
        script += b'1s/^/D /\n'
    for n in order:
        script += b'e! %s\n' % n.encode()
        if dirty[n]:
            script += b'1s/^/D /\n'
    cur = order[-1]
    if R.random() < 0.5:
        cur = R.choice(names)
        script += b'e! %s\n' % cur.encode()                    # any buffer may be the current one
    if R.random() < 0.3:
        script += b'w\n'                                       # the current buffer's recorded time is refreshed first
        if dirty[cur]:
            ondisk[cur] = b'D ' + files[cur]
        dirty[cur] = False
        written.add(cur)
    for n in names:
        if ext[n]:
            if n in written:      # its recorded time is this very second: only a visibly newer time can be told apart
                script += (b'rx z repl %s\n' if ext[n] == 'cp' else b'rx z future %s\n') % n.encode()
            else:                 # recorded time T0 (2017): a change made now is newer
                script += (b'rx z cp alt %s\n' if ext[n] == 'cp' else b'rx z touch %s\n') % n.encode()    # (:! is refused while the buffer is modified)
    if nf > 1 and R.random() < 0.4:
        # leave the buffer and come back (a switch to a loaded buffer reads nothing, so it must not refresh what the editor remembers of the file)
        away = R.choice([n for n in names if n != cur])
        script += b'e! %s\n' % away.encode() + R.choice([b'e! %s\n' % cur.encode(), b'e! #\n', b'e! %s\n' % cur.encode()])
    cmd = R.choice([b'xa', b'xa', b'xa', b'wq', b'x', b'w', b'w', b'FOREIGN', b'FOREIGN', b'AW', b'AW'])
    if cmd == b'AW':
        # autowrite: leaving a modified buffer writes it first - under the same guard as an explicit :w
        script += b'se aw\n'
        cmd = R.choice([b'e %s' % R.choice([n for n in names if n != cur] or [cur]).encode(), b'q', b'q', b'b 1', b'n'])
    foreign = None
    if cmd == b'FOREIGN':
        # an existing file that is open in ANOTHER buffer is as foreign to the current buffer as any other file
        foreign = R.choice([n for n in names if n != cur])
        cmd = R.choice([b'w %s', b'1,1w %s', b'w %s']) % foreign.encode()
    script += b'ec ' + S(0) + b'\n' + cmd + b'\nec ' + S(1) + b'\n' + cmd + b'\nec ' + S(2) + b'\n'
    r, d, lg = run_ex(vi, so, script + b'q!\n', files, None, mt)
    got = {n: common.readf(d, n) for n in names}
    common.rmcase(d)
    wit = {'index': idx, 'script': script, 'dirty': dirty, 'changed_on_disk': ext}
    if S(0) not in r.out or r.timed_out:
        return ('inconclusive', None, wit)
    if foreign and not ext[foreign] and got[foreign] != ondisk[foreign]:
        return ('guard:clobbered', '%d buffers, current %s: :%s (no !) replaced the existing file of another buffer: now %r' % (nf, cur, cmd.decode(), common.show(got[foreign] or b'', 50)), wit)
    for n in names:
        if not ext[n]:
            continue
        keep = files['alt'] if ext[n] == 'cp' else ondisk[n]
        if got[n] != keep:
            return ('guard:clobbered', '%d buffers, %s %s on disk after it was read, then :%s (twice): the file was replaced by %r' % (
                nf, n, 'replaced' if ext[n] == 'cp' else 'touched', cmd.decode(), common.show(got[n] or b'', 50)), wit)
    if S(1) not in r.out and any(dirty[n] and ext[n] for n in names):
        return ('guard:quit-despite-refusal', '%d buffers, dirty %s changed on disk %s, :%s exited' % (nf, dirty, ext, cmd.decode()), wit)
    return ('ok' if foreign or any(dirty[n] and ext[n] for n in names) else 'ok-trivial', None, wit)


def run(tier, V):
    vi = build('plain')
    so = build_shim()
    bufs = buffers()
    cmds = ['w', 'w!', 'wq', 'x', 'xa']
    err_kinds = ERR_KINDS
    if tier == 'thorough':
        R = rng('c03')
        for i in range(24):
            lens = [R.choice([0, 1, 5, 60, 200, 1000, 4090, 4095, 4096, 4097, 6000]) for _ in range(R.randint(1, 30))]
            content = b''.join(bytes([97 + (i + j) % 26]) * n + b'\n' for j, n in enumerate(lens))
            bufs.append(('random-%d' % i, content, b'1s/^/X/\n', b'X' + content))
    jobs = []
    seqs = {}
    for bname, content, edit, want in bufs:
        for cmd in cmds:
            no, nw, nc = dry_run(vi, so, content, edit, cmd)
            seqs['%s/%s' % (bname, cmd)] = [no, nw, nc]
            half = lambda i, n: 2 if (cmd.startswith('xa') and i > n // 2) else 1
            for i in range(1, no + 1):
                for k in err_kinds:
                    jobs.append((vi, so, bname, content, edit, want, cmd, 'open:%d:%s' % (i, k), half(i, no)))
            for i in range(1, nw + 1):
                for k in err_kinds + SHORT_KINDS:
                    jobs.append((vi, so, bname, content, edit, want, cmd, 'write:%d:%s' % (i, k), half(i, nw)))
                # fault sequence: the write is cut short and the retry of the remainder fails
                for sk in (SHORT_KINDS if tier == 'thorough' else SHORT_KINDS[1:2]):
                    for k in (err_kinds if tier == 'thorough' else err_kinds[:2]):
                        jobs.append((vi, so, bname, content, edit, want, cmd, 'write:%d:%s,write:%d:%s' % (i, sk, i + 1, k), half(i, nw)))
            for i in range(1, nc + 1):
                for k in err_kinds:      # every error kind at close too (EINTR from close is still a failed save)
                    jobs.append((vi, so, bname, content, edit, want, cmd, 'close:%d:%s' % (i, k), half(i, nc)))
    res = pmap(fault_case, jobs)
    fired = 0
    for r in res:
        if r['fired']:
            fired += 1
        else:
            V.inconclusive += 1
        for key, what, wit in r['bad']:
            V.violation(key, what, wit)
    # guard truth table
    gjobs = []
    for tgt in ('own', 'foreign', 'absent'):
        for rel in (('older', 'equal', 'newer', 'zero') if tgt == 'foreign' else ('older', 'equal', 'newer') if tgt != 'absent' else ('equal',)):
            for bang in (False, True):
                nm = '%s/%s/%s' % (tgt, rel, 'w!' if bang else 'w')
                gjobs.append((vi, so, nm, {'target': tgt, 'mtime_rel': rel, 'bang': bang}))
                if tgt == 'own':
                    gjobs.append((vi, so, nm + '/symlink', {'target': tgt, 'mtime_rel': rel, 'bang': bang, 'symlink': True}))
    gres = pmap(guard_case, gjobs)
    for key, what, wit, ok in gres:
        if key:
            V.violation(key, what, wit)
    nm = 150 if tier == 'quick' else 2000
    mres = pmap(multi_guard_case, [(vi, so, common.seed() * 1000003 + i) for i in range(nm)])
    mok = 0
    for key, what, wit in mres:
        if key == 'inconclusive':
            V.inconclusive += 1
        elif key == 'ok':
            mok += 1
        elif key != 'ok-trivial':
            V.violation(key, what, wit)
    nmany = 24 if tier == 'quick' else 200
    for key, what, wit in pmap(many_failures_case, [(vi, common.seed() * 31 + i) for i in range(nmany)]):
        if key == 'inconclusive':
            V.inconclusive += 1
        elif key != 'ok':
            V.violation(key, what, wit)
    cov = {'evaluations': len(jobs) + len(gjobs) + nm + nmany, 'many_failure_histories': nmany, 'distinct_nontrivial': fired + len(gjobs) + mok, 'multi_buffer_guard_scenarios': nm, 'multi_buffer_scenarios_with_a_dirty_changed_file': mok, 'faults_injected_and_fired': fired, 'fault_runs': len(jobs),
           'syscall_sequences': seqs, 'guard_cases': [g[2] for g in gjobs], 'exhaustive': True,
           'rule': ('for each buffer shape (empty / one line / one batch / several batches / lines >= 4096 / mixture) and save command, a dry run under the shim gives the open/write/close sequence of the save; '
                    'then EVERY position x EVERY kind (%s error returns; short counts 1, half, len-1) is injected, one fault per run (2 processes per fault: inspect file after the command; continue with :q, :b, :w!, :q). '
                    'non-trivial = the shim log shows the fault fired (INJECTED).  guards: full truth table target {own, own reached through a symbolic link, foreign-existing, absent} x mtime {older, equal, newer; for the foreign file also 0} x {w, w!}; + random scenarios with 2-3 buffers, files replaced/touched behind the editor, any buffer current, then w/wq/x/xa or a write to another open buffer\'s file without !; + histories of 40-120 failed saves (full device, missing directory) under a descriptor limit of 24-48, then a retry; the shim log is also checked for save descriptors left open by a failed save.' % ','.join(err_kinds)),
           'samples': [{'buffer': j[2], 'command': j[6], 'fault': j[7]} for j in jobs[::max(1, len(jobs) // 5)]][:6]}
    assumptions = ['a save fd is a descriptor opened with O_WRONLY|O_CREAT; ftruncate faults are outside the quantifier (open/write/close)',
                   'the retry after a failure is :w! (a torn write legitimately advanced the file\'s mtime)',
                   'success/failure of a command is read from the [w] message on stdout', 'plain -O2 build (fault injection is not about memory safety)']
    return cov, assumptions
