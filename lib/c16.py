"""C16: UTF-8 character arithmetic agrees with code points; edits keep text valid UTF-8.

Monitor: the probe evaluates the editor's helpers; the oracle is Python's own notion of code
points (str/bytes codec) - an independent implementation.  Exhaustive over every scalar value and
over all short strings of a 1-4 byte alphabet; random longer strings; plus editing programs run
through the real binary with a UTF-8 validity oracle on what gets written.
"""
import itertools, os, subprocess
import common
from common import pmap, rng, build, VERIF

LEVEL = 'exploration'
PROBE = os.path.join(VERIF, 'probe', 'probe.c')
ALPHA = ['a', 'é', '€', '\U0001F600', '\t']


def probe_run(exe, text, timeout=600):
    r = common.run([exe], text.encode(), env=common.base_env('/tmp'), timeout=timeout)
    return r


def small_match(cps, pat_kind, ch, icase=False):
    """independent evaluation of the four tiny patterns used by ucr on the line x<ch>y\\n"""
    def eq(a, b):
        if icase and a < 128 and b < 128:
            return chr(a).lower() == chr(b).lower()
        return a == b
    starts = []
    off = 0
    for c in cps:
        starts.append(off)
        off += len(chr(c).encode())
    starts.append(off)
    n = len(cps)
    for i in range(n):
        if cps[i] == 10:
            continue
        if pat_kind == 'any':        # x.y
            if i + 2 < n and cps[i] == ord('x') and cps[i + 1] != 10 and cps[i + 2] == ord('y'):
                return (0, starts[i], starts[i + 3])
        elif pat_kind == 'brk':      # [ch (+extra)]y
            extra = {ord('^'): 'a', ord('-'): 'a'}.get(ch, '')
            if i + 1 < n and (cps[i] == ch or (extra and cps[i] == ord(extra))) and cps[i + 1] == ord('y'):
                return (0, starts[i], starts[i + 2])
        elif pat_kind == 'nbrk':
            extra = {ord('^'): 'b', ord('-'): 'b'}.get(ch, '')
            if i + 1 < n and cps[i] != ch and not (extra and cps[i] == ord(extra)) and cps[i + 1] == ord('y'):
                return (0, starts[i], starts[i + 2])
        elif pat_kind == 'lit':
            if i + 1 < n and eq(cps[i], ch) and eq(cps[i + 1], ord('y')):
                return (0, starts[i], starts[i + 2])
    return (-1, -9, -9)


def check_ucr_shard(args):
    exe, lo, hi = args
    r = probe_run(exe, 'ucr %d %d\n' % (lo, hi))
    bad = []
    rep = common.san_report(r)
    n = 0
    seen_len = set()
    lines = r.out.decode('ascii', 'replace').split('\n')
    expect = lo
    for ln in lines:
        if not ln or ln == 'END':
            continue
        f = ln.split()
        cp = int(f[0], 16)
        while 0xd800 <= expect <= 0xdfff:
            expect += 1
        if cp != expect:
            bad.append(('ucr:sequence', 'expected U+%04X got U+%04X' % (expect, cp), {'cp': cp}))
            break
        expect += 1
        n += 1
        b = chr(cp).encode('utf-8')
        L = len(b)
        seen_len.add(L)
        vals = list(map(int, f[2:8]))
        want = [L, cp, 1, L - 1, L, 2]
        names = ['uc_len', 'uc_code', 'uc_slen', 'uc_end', 'uc_next', 'uc_slen(ch+x)']
        if f[1] != b.hex():
            bad.append(('ucr:encoding', 'probe bytes %s != %s' % (f[1], b.hex()), {'cp': cp}))
            continue
        for nm, v, w in zip(names, vals, want):
            if v != w:
                bad.append(('uc:%s' % nm, 'U+%04X %s=%d expected %d' % (cp, nm, v, w), {'cp': cp, 'helper': nm, 'got': v, 'want': w}))
        # regex-private decoders through matches
        cps = [ord('x'), cp, ord('y'), 10]
        res = f[14:18]
        kinds = ['any', 'brk', 'nbrk', 'lit']
        for k, rs in zip(kinds, res):
            if rs == '-:-:-':
                continue
            if cp == 10 and k != 'any':
                continue
            got = tuple(int(x) for x in rs.split(':'))
            w = small_match(cps, k, cp, icase=(k == 'lit'))
            if got[0] != w[0] or (w[0] == 0 and got[1:] != w[1:]):
                bad.append(('regex-decoder:%s' % k, 'U+%04X pattern kind %s on x<ch>y: got %s expected %s' % (cp, k, got, w), {'cp': cp, 'kind': k}))
        if len(f) > 18 and f[18] != '-:-:-' and not f[18].startswith('-1:'):
            bad.append(('regex-decoder:fold', 'U+%04X: the pattern %r+ (ignoring case) matches inside "<%s>": %s (case folding looked at the low byte of the code point)' % (cp, chr(cp & 0xff).lower(), chr(cp), f[18]), {'cp': cp, 'kind': 'fold'}))
    if rep:
        bad.append((rep, 'sanitizer/crash in probe ucr %x..%x: %s' % (lo, hi, r.err[-600:].decode('latin-1')), {'cmd': 'ucr %d %d' % (lo, hi)}))
    elif r.timed_out:
        bad.append(('probe:timeout', 'ucr %x..%x timed out' % (lo, hi), {}))
    elif 'END' not in lines:
        bad.append(('probe:truncated', 'ucr %x..%x output truncated rc=%s' % (lo, hi, r.rc), {}))
    return n, bad, seen_len


def model_ucs(s):
    """expected output structure for 'ucs' on python str s"""
    cps = list(s)
    enc = [c.encode('utf-8') for c in cps]
    b = b''.join(enc)
    starts = [0]
    for e in enc:
        starts.append(starts[-1] + len(e))
    n, L = len(cps), len(b)
    bset = starts  # boundaries incl. L
    out = {}
    out['n'] = n
    out['chr'] = [('%d' % L) if off < 0 else (('%d' % starts[off]) if off <= n else 'E0') for off in range(-1, n + 2)]
    out['off'] = [sum(1 for st in starts[:n] if st < i) for i in range(0, L + 2)]
    nb = lambda i: min([x for x in bset if x > i] + [L])
    out['nx'] = [nb(i) if i < L else L for i in range(L + 1)]
    out['en'] = [nb(i) - 1 if i < L else L for i in range(L + 1)]
    lb = lambda i: max(x for x in bset if x <= i)
    out['bg'] = [lb(i) for i in range(L + 1)]
    out['pv'] = [0 if i == 0 else lb(i - 1) for i in range(L + 1)]
    out['chop'] = [n] + starts
    subs = []
    for i in range(n + 1):
        for j in range(i, n + 1):
            subs.append(b''.join(enc[i:j]))
        subs.append(b''.join(enc[i:]))
    out['sub'] = subs
    return out


def parse_ucs(line):
    f = line.split()
    out = {'n': int(f[0])}
    cur = None
    for t in f[1:]:
        if t in ('chr', 'off', 'nx', 'en', 'bg', 'pv', 'chop', 'sub'):
            cur = t
            out[cur] = []
        else:
            out[cur].append(t)
    return out


def check_ucs_batch(args):
    exe, strings, nosub = args
    text = ''.join('ucs %s%s\n' % (s.encode('utf-8').hex() or '-', ' nosub' if nosub else '') for s in strings)
    r = probe_run(exe, text)
    bad = []
    lines = [l for l in r.out.decode('ascii', 'replace').split('\n') if l]
    rep = common.san_report(r)
    nontrivial = 0
    for s, ln in zip(strings, lines):
        try:
            got = parse_ucs(ln)
        except Exception:
            bad.append(('probe:parse', 'unparsable ucs output %r' % ln[:80], {'s': s}))
            continue
        want = model_ucs(s)
        if len(s.encode()) > len(s):
            nontrivial += 1
        for k in ('n', 'chr', 'off', 'nx', 'en', 'bg', 'pv', 'chop', 'sub'):
            if k == 'sub':
                if nosub:
                    continue
                w = [x.hex() or '-' for x in want[k]]
                g = got.get(k, [])
            elif k == 'n':
                w, g = want[k], got[k]
            elif k == 'chr':
                w, g = want[k], got.get(k, [])
            else:
                w, g = want[k], [int(x) for x in got.get(k, [])]
            if w != g:
                bad.append(('uc:str:%s' % k, 'string %r helper group %s: got %s expected %s' % (s, k, str(g)[:200], str(w)[:200]),
                            {'s': s, 'hex': s.encode().hex(), 'group': k}))
    if rep:
        idx = len(lines)
        bad.append((rep, 'sanitizer/crash in probe on ucs string #%d %r: %s' % (idx, strings[idx] if idx < len(strings) else '?', r.err[-500:].decode('latin-1')),
                    {'s': strings[idx] if idx < len(strings) else None}))
    elif len(lines) != len(strings):
        bad.append(('probe:truncated', 'ucs batch produced %d of %d lines rc=%s' % (len(lines), len(strings), r.rc), {}))
    return len(lines), nontrivial, bad


def run(tier, V):
    exe = build('asan', probe=PROBE)
    cov = {}
    # (1) every scalar value
    shards = []
    step = 0x110000 // 64 + 1
    for lo in range(1, 0x110000, step):
        shards.append((exe, lo, min(lo + step, 0x110000)))
    res = pmap(check_ucr_shard, shards, procs=True)
    ncp = sum(r[0] for r in res)
    lens = set()
    for n, bad, sl in res:
        lens |= sl
        for key, what, wit in bad:
            V.violation(key, what, wit)
    cov['code_points_checked'] = ncp
    cov['byte_lengths_seen'] = sorted(lens)
    if ncp != 0x10ffff - 2048:
        raise common.HarnessError('expected %d scalar values, probe reported %d' % (0x10ffff - 2048, ncp)) if not V.violations else None
    # (2) all short strings
    maxlen = 5 if tier == 'quick' else 7
    strings = [''.join(t) for L in range(0, maxlen + 1) for t in itertools.product(ALPHA, repeat=L)]
    B = 400
    batches = [(exe, strings[i:i + B], False) for i in range(0, len(strings), B)]
    res = pmap(check_ucs_batch, batches, procs=True)
    nstr = sum(r[0] for r in res)
    nontriv = sum(r[1] for r in res)
    for _, _, bad in res:
        for key, what, wit in bad:
            V.violation(key, what, wit)
    # (3) random longer strings
    R = rng('c16', 'long')
    nlong = 600 if tier == 'quick' else 6000
    pool = ALPHA + ['b', ' ', '́', 'ب', '中', '‌', '\U00010000', '\U0010FFFF', '\x7f', '\x01', '߿', 'ࠀ', '￿']
    longs = [''.join(R.choice(pool) for _ in range(R.randint(6, 60))) for _ in range(nlong)]
    batches = [(exe, longs[i:i + 100], False) for i in range(0, len(longs), 100)]
    res = pmap(check_ucs_batch, batches, procs=True)
    nstr += sum(r[0] for r in res)
    nontriv += sum(r[1] for r in res)
    for _, _, bad in res:
        for key, what, wit in bad:
            V.violation(key, what, wit)
    # (4) editing programs over multi-byte text through the real binary: validity oracle
    import c16edit
    ecov = c16edit.run(tier, V)
    cov.update(ecov)
    cov['strings_checked'] = nstr
    cov['evaluations'] = ncp + nstr + ecov.get('edit_programs', 0)
    cov['distinct_nontrivial'] = (ncp - 127) + nontriv + ecov.get('edit_programs_nontrivial', 0)
    cov['rule'] = ('(0: editing part) random vi programs and :s commands (quantified and escaped multi-byte characters, the on-demand registers "; "# "^ on lines around 1 KiB, prompt editing) must leave valid UTF-8; (1) every Unicode scalar value U+0001..U+10FFFF through uc_len/uc_code/uc_slen/uc_end/uc_next and through the regex '
                   'engine\'s private decoders (., bracket, negated bracket, icase literal); non-trivial = multi-byte (cp>=128). '
                   '(2) ALL strings up to length %d over {a, e-acute, euro, emoji, tab}; (3) %d random strings of 6-60 chars; every offset/boundary '
                   'of uc_chr/uc_off/uc_next/uc_end/uc_beg/uc_prev/uc_chop/uc_sub vs Python str; non-trivial = contains a multi-byte char. '
                   '(4) random vi/ex editing programs over multi-byte buffers, written file must decode as UTF-8; non-trivial = the program changed the text.' % (maxlen, nlong))
    cov['exhaustive'] = True
    cov['samples'] = [{'code_point': 'U+20AC', 'expect': 'uc_len=3 uc_code=8364'},
                      {'string': strings[len(strings) // 2], 'hex': strings[len(strings) // 2].encode().hex()},
                      {'string': longs[0]}] + ecov.get('edit_samples', [])[:3]
    assumptions = ['Python\'s UTF-8 codec is the reference for code-point segmentation',
                   'uc_chr(s,-1) denotes the end of the string and uc_chr beyond the end yields an empty string (conventions used by uc_sub)',
                   'raw-byte insertion (^V + byte >= 0x80) is excluded as the statement says']
    return cov, assumptions
