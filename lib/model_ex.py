"""Reference line editor for the ex commands of C06/C15 (lines carry identities).

Written from the property statements and POSIX ex; where those are silent the choices listed in
DESIGN.md Appendix A are adopted.  Lines are Python str without terminator.
"""
import itertools
import model_regex as mr


class Reject(Exception):
    """the command must be rejected: buffer, current line and output unchanged"""


class Unknown(Exception):
    """the model declines to predict (outside the modelled subset)"""


_ids = itertools.count(1)


class Line:
    __slots__ = ('id', 'text')

    def __init__(self, text, lid=None):
        self.text = text
        self.id = lid if lid is not None else next(_ids)


def parse_simple_re(p):
    """the tiny pattern language used in addresses and :g of generated scripts -> AST"""
    # tokens: literal chars, ^ $ . and a trailing *
    items = []
    i = 0
    while i < len(p):
        c = p[i]
        if c == '^' and i == 0:
            node = ('bol',)
        elif c == '$' and i == len(p) - 1:
            node = ('eol',)
        elif c == '.':
            node = ('any',)
        elif c == '\\' and i + 1 < len(p):
            i += 1
            node = ('lit', p[i])
        else:
            node = ('lit', c)
        if i + 1 < len(p) and p[i + 1] == '*' and node[0] in ('lit', 'any'):
            node = ('rep', node, 0, -1)
            i += 1
        items.append(node)
        i += 1
    if not items:
        raise Unknown('empty pattern')
    return items[0] if len(items) == 1 else ('cat', items)


class Ex:
    def __init__(self, lines, icase=True, files=None, shell=None):
        self.lines = [Line(t) for t in lines]
        self.cur = 0                    # index of the current line (0 for an empty buffer)
        self.marks = {}                 # letter -> line id, or None when its line was changed/deleted
        self.regs = {}                  # name -> (list of str, linewise)
        self.icase = icase
        self.files = files or {}
        self.shell = shell or {}
        self.out = []                   # printed output (bytes pieces)
        self.lastpat = None
        self.dirty = False
        self.semicolon_cur = None
        self.semicolon_seen = False

    # ---- helpers
    def n(self):
        return len(self.lines)

    def texts(self):
        return [l.text for l in self.lines]

    def index_of(self, lid):
        for i, l in enumerate(self.lines):
            if l.id == lid:
                return i
        return None

    def matches(self, ast, text):
        M = mr.Matcher(ast, text, self.icase)
        for st in range(len(text) + 1):
            if M.match_at(st) is not None:
                return True
        if M.emptyloop:
            raise Unknown('empty loop')
        return False

    # ---- addresses (all 1-based numbers; 0 means "before the first line")
    def addr_one(self, s, i, cur1):
        """parse one address at s[i:], returns (value 1-based or None if absent, new i)"""
        v = None
        if i < len(s) and s[i].isdigit():
            j = i
            while j < len(s) and s[j].isdigit():
                j += 1
            v = int(s[i:j])
            i = j
        elif i < len(s) and s[i] == '.':
            v = cur1
            i += 1
        elif i < len(s) and s[i] == '$':
            v = self.n()
            i += 1
        elif i < len(s) and s[i] == "'":
            m = s[i + 1:i + 2]
            if m not in self.marks:
                raise Reject('mark not set')
            if self.marks[m] is None:
                raise Unknown('mark on a changed line')
            idx = self.index_of(self.marks[m])
            if idx is None:
                raise Reject('mark deleted')
            v = idx + 1
            i += 2
        elif i < len(s) and s[i] in '/?':
            d = s[i]
            j = i + 1
            while j < len(s) and s[j] != d:        # an escaped delimiter belongs to the pattern
                j += 2 if s[j] == '\\' and j + 1 < len(s) else 1
            if j >= len(s):
                raise ValueError('unterminated pattern address')
            pat = s[i + 1:j]
            if pat:
                self.lastpat = parse_simple_re(pat)
            if self.lastpat is None:
                raise Reject('no pattern')
            step = 1 if d == '/' else -1
            k = cur1 - 1 + step
            found = None
            while 0 <= k < self.n():
                if self.matches(self.lastpat, self.lines[k].text):
                    found = k
                    break
                k += step
            if found is None:
                raise Reject('pattern not found')
            v = found + 1
            i = j + 1
        had = v is not None
        while i < len(s) and s[i] in '+-':
            sign = 1 if s[i] == '+' else -1
            j = i + 1
            while j < len(s) and s[j].isdigit():
                j += 1
            if j == i + 1:
                raise Unknown('bare + or -')
            if v is None:
                v = cur1
            v += sign * int(s[i + 1:j])
            i = j
            had = True
        return (v if had else None), i

    def region(self, loc, allow_zero=False):
        """returns (a, b) 1-based inclusive; (0, 0) for address zero when allowed; for an empty
        buffer and no address returns (0, 0) as well."""
        cur1 = self.cur + 1 if self.n() else 0
        if loc == '%':
            if not self.n():
                return (0, 0)
            return (1, self.n())
        if loc == '':
            if not self.n():
                return (0, 0)
            return (cur1, cur1)
        if not self.n() and loc != '0':
            raise Unknown('relative or symbolic address on an empty buffer')
        vals = []
        i = 0
        while True:
            v, i = self.addr_one(loc, i, cur1)
            if v is None:
                v = cur1
            if v < 0:
                raise Reject('negative line')      # (rejected on the spot, wherever it stands in the list; too large a number only counts if it is one of the last two)
            vals.append(v)
            if i < len(loc) and loc[i] in ',;':
                if loc[i] == ';':
                    self.semicolon_seen = True
                    if v == 0:
                        raise Unknown('0;')
                    if 1 <= v <= self.n():
                        cur1 = v
                        self.semicolon_cur = v - 1
                    # (an address that is out of range moves nothing; whether the command is rejected is decided by the
                    # last two addresses, below - with three or more addresses the earlier ones only serve to move the current line)
                i += 1
                continue
            break
        if i != len(loc):
            raise Unknown('address syntax')
        a, b = (vals[-1], vals[-1]) if len(vals) == 1 else (vals[-2], vals[-1])
        if a == 0 and b == 0 and allow_zero:
            return (0, 0)           # "before the first line" (also the only address an empty buffer has)
        if not self.n():
            raise Reject('empty buffer')
        if a < 1 or b < a or b > self.n():
            if a == 0 and allow_zero and 1 <= b <= self.n():
                raise Unknown('0,N range')
            raise Reject('address out of range')
        if self.semicolon_cur is not None:
            self.cur = self.semicolon_cur      # ';' makes the first address the current line
        return (a, b)

    # ---- splice with identity bookkeeping
    def splice(self, i, j, newtexts, keep_ids=False):
        """replace lines[i:j] by new lines; marks on removed/changed lines become unknown"""
        old = self.lines[i:j]
        new = []
        for k, t in enumerate(newtexts):
            if keep_ids and k < len(old):
                new.append(Line(t, old[k].id))
            else:
                new.append(Line(t))
        self.dirty = True
        for m, lid in list(self.marks.items()):
            if lid in {l.id for l in old}:
                self.marks[m] = None
        self.lines[i:j] = new

    def setreg(self, name, texts, linewise=True):
        if name == '':
            name = '"'
        if linewise and (name == '"' or (len(name) == 1 and name.isalpha() and name.isascii())):
            # every line-wise store through the unnamed or a letter register also goes to "1, the older ones move up to "9
            for i in range(8, 0, -1):
                if str(i) in self.regs:
                    self.regs[str(i + 1)] = self.regs[str(i)]
            self.regs['1'] = (list(texts), True)
        if name.isupper():
            low = name.lower()
            old = self.regs.get(low, ([], True))[0]
            self.regs[low] = (old + list(texts), True)
        else:
            self.regs[name] = (list(texts), True)

    # ---- commands.  Each returns None; raises Reject/Unknown.  self.out collects printed bytes.
    def do(self, loc, cmd, arg='', text=None):
        self.semicolon_cur = None
        self.semicolon_seen = ';' in loc.split('/')[0].split('?')[0] or ';' in loc
        try:
            self._do(loc, cmd, arg, text)
        except Reject:
            # ';' makes a valid first address the current line before the rest is looked at
            if self.semicolon_cur is not None:
                self.cur = self.semicolon_cur
            raise

    def _do(self, loc, cmd, arg, text):
        n = self.n()
        self.semicolon_cur = None
        if cmd in ('a', 'i'):
            a, b = self.region(loc, allow_zero=True)
            new = list(text or [])
            if cmd == 'a':
                pos = b            # after line b (0 -> top)
                self.splice(pos, pos, new)
                if new:
                    self.cur = pos + len(new) - 1
                else:
                    self.cur = max(0, b - 1)
            else:
                pos = max(0, a - 1)
                self.splice(pos, pos, new)
                if new:
                    self.cur = pos + len(new) - 1
                else:
                    self.cur = max(0, a - 2)
            return
        if cmd == 'c':
            if not n and loc != '':
                raise Unknown('address with c on an empty buffer')
            a, b = self.region(loc, allow_zero=True) if n else (0, 0)
            if n and (a, b) == (0, 0):
                raise Unknown('0c')
            new = list(text or [])
            if not n:
                self.splice(0, 0, new)
                self.cur = max(0, len(new) - 1)
                return
            self.splice(a - 1, b, new, keep_ids=True)
            if new:
                self.cur = a - 1 + len(new) - 1
            else:
                self.cur = max(0, a - 2)
            return
        if cmd == 'd':
            if not n:
                raise Reject('empty')
            a, b = self.region(loc)
            self.setreg(arg, [l.text for l in self.lines[a - 1:b]])
            self.splice(a - 1, b, [])
            self.cur = min(a - 1, max(0, self.n() - 1))
            return
        if cmd == 'y':
            if not n:
                raise Reject('empty')
            a, b = self.region(loc)
            self.setreg(arg, [l.text for l in self.lines[a - 1:b]])
            return
        if cmd == 'pu':
            name = arg or '"'
            if name.lower() not in self.regs and name not in self.regs:
                raise Reject('empty register')
            a, b = self.region(loc, allow_zero=True)
            new = self.regs[name.lower() if name.isupper() else name][0]
            self.splice(b, b, new)
            self.cur = max(0, b + len(new) - 1)
            return
        if cmd == 'r':
            if arg not in self.files:
                raise Reject('no file')
            a, b = self.region(loc, allow_zero=True)
            new = self.files[arg]
            self.splice(b, b, new)
            self.cur = max(0, b + len(new) - 1) if new else max(0, b - 1)
            return
        if cmd == 'p':
            if not n:
                raise Reject('empty')
            a, b = self.region(loc)
            for l in self.lines[a - 1:b]:
                self.out.append(l.text.encode('utf-8') + b'\n')
            self.cur = b - 1
            return
        if cmd == '=':
            if not n:
                raise Unknown('= on an empty buffer')
            a, b = self.region(loc)
            self.out.append(b'%d\n' % b)
            return
        if cmd == 'k':
            a, b = self.region(loc)
            if not n:
                raise Reject('empty')
            self.marks[arg] = self.lines[b - 1].id
            return
        if cmd == '!':
            if arg not in self.shell:
                raise Unknown('shell command')
            if self.dirty:
                raise Reject('filters are refused while the buffer is modified')
            if not n:
                # neatvi runs the command on no lines and takes its output (like 0r !cmd); whether that is a rejection is not for this model to say
                raise Unknown('filter on an empty buffer')
            a, b = self.region(loc)
            new = self.shell[arg]([l.text for l in self.lines[a - 1:b]])
            if new is None:         # command failed / produced nothing: neatvi still replaces with its (empty) output
                new = []
            self.splice(a - 1, b, new, keep_ids=True)
            return
        if cmd == 'rs':
            self.setreg(arg, list(text or []))
            return
        if cmd in ('@', 'ra'):
            if arg != 'c' or 'c' not in self.regs:
                raise Unknown('executing a register that does not hold generated command text')
            a, b = self.region(loc)
            if not n:
                raise Unknown('@ on an empty buffer')
            self.cur = a - 1
            import re as _re
            for line in self.regs['c'][0]:
                m = _re.match(r'^([0-9.$,]*)([a-z=]+?)(?: ?([a-z]))?$', line)
                if not m:
                    raise Unknown('register text')
                l2, c2, a2 = m.group(1), m.group(2), m.group(3) or ''
                if c2 == 'ka':
                    c2, a2 = 'k', 'a'
                try:
                    self._do(l2, c2, a2, None)
                except Reject:
                    pass            # a failing command does not stop the rest of the register
                self.cur = max(0, min(self.cur, self.n() - 1))
            return
        raise Unknown(cmd)
