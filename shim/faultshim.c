/*
 * LD_PRELOAD fault injector for neatvi's save path.
 *
 * A "save fd" is a descriptor returned by open()/openat() with O_WRONLY|O_CREAT (that is how
 * lbuf_save() opens its target).  Every interposed call on a save fd is appended to
 * $NEATVI_FAULT_LOG.  $NEATVI_FAULT = "<op>:<n>:<kind>[,<op>:<n>:<kind>...]" injects up to four faults:
 *   op   open | write | close     n = ordinal of that operation among save-fd calls (1-based)
 *   kind ENOSPC | EIO | EINTR | EDQUOT | EACCES | EFBIG      -> return -1 with that errno
 *        short1 | shorthalf | shortallbut1                   -> (write only) transfer fewer bytes
 * Terminal output (fd 1) and everything else passes through untouched.
 */
#define _GNU_SOURCE
#include <dlfcn.h>
#include <errno.h>
#include <fcntl.h>
#include <stdarg.h>
#include <stdio.h>
#include <stdlib.h>
#include <string.h>
#include <unistd.h>

static int savefd[1024];
static int n_open, n_write, n_close;
static struct fault { int op, n, err, shrt; } flt[4];	/* op: 1 open 2 write 3 close */
static int nflt;
static int inited;

static void logf_(const char *fmt, ...)
{
	char buf[512];
	char *path = getenv("NEATVI_FAULT_LOG");
	va_list ap;
	int fd, n;
	static ssize_t (*real_write)(int, const void *, size_t);
	static int (*real_open)(const char *, int, ...);
	static int (*real_close)(int);
	if (!path)
		return;
	if (!real_write) {
		real_write = dlsym(RTLD_NEXT, "write");
		real_open = dlsym(RTLD_NEXT, "open");
		real_close = dlsym(RTLD_NEXT, "close");
	}
	va_start(ap, fmt);
	n = vsnprintf(buf, sizeof(buf), fmt, ap);
	va_end(ap);
	fd = real_open(path, O_WRONLY | O_CREAT | O_APPEND, 0644);
	if (fd >= 0) {
		real_write(fd, buf, n);
		real_close(fd);
	}
}

static int errno_of(const char *s)
{
	if (!strcmp(s, "ENOSPC")) return ENOSPC;
	if (!strcmp(s, "EIO")) return EIO;
	if (!strcmp(s, "EINTR")) return EINTR;
	if (!strcmp(s, "EDQUOT")) return EDQUOT;
	if (!strcmp(s, "EACCES")) return EACCES;
	if (!strcmp(s, "EFBIG")) return EFBIG;
	return 0;
}

static void init(void)
{
	char *f = getenv("NEATVI_FAULT");
	inited = 1;
	while (f && *f && nflt < 4) {
		char op[16] = "", kind[32] = "";
		struct fault *x = &flt[nflt];
		if (sscanf(f, "%15[a-z]:%d:%31[A-Za-z0-9]", op, &x->n, kind) != 3)
			break;
		x->op = !strcmp(op, "open") ? 1 : !strcmp(op, "write") ? 2 : !strcmp(op, "close") ? 3 : 0;
		x->err = errno_of(kind);
		if (!strcmp(kind, "short1")) x->shrt = 1;
		if (!strcmp(kind, "shorthalf")) x->shrt = 2;
		if (!strcmp(kind, "shortallbut1")) x->shrt = 3;
		nflt++;
		f = strchr(f, ',');
		if (f)
			f++;
	}
}

static struct fault *hit(int op, int n)
{
	int i;
	for (i = 0; i < nflt; i++)
		if (flt[i].op == op && flt[i].n == n)
			return &flt[i];
	return NULL;
}

static int do_open(const char *path, int flags, mode_t mode, int dirfd, int at)
{
	static int (*real_open)(const char *, int, ...);
	static int (*real_openat)(int, const char *, int, ...);
	int fd;
	int save = (flags & O_WRONLY) && (flags & O_CREAT);
	if (!inited)
		init();
	if (!real_open) {
		real_open = dlsym(RTLD_NEXT, "open");
		real_openat = dlsym(RTLD_NEXT, "openat");
	}
	if (save) {
		n_open++;
		struct fault *x = hit(1, n_open);
		if (x && x->err) {
			logf_("open %s -> -1 errno=%d (INJECTED)\n", path, x->err);
			errno = x->err;
			return -1;
		}
	}
	fd = at ? real_openat(dirfd, path, flags, mode) : real_open(path, flags, mode);
	if (save) {
		logf_("open %s -> %d\n", path, fd);
		if (fd >= 0 && fd < 1024)
			savefd[fd] = 1;
	}
	return fd;
}

int open(const char *path, int flags, ...)
{
	mode_t mode = 0;
	if (flags & O_CREAT) {
		va_list ap;
		va_start(ap, flags);
		mode = va_arg(ap, int);
		va_end(ap);
	}
	return do_open(path, flags, mode, 0, 0);
}

int open64(const char *path, int flags, ...)
{
	mode_t mode = 0;
	if (flags & O_CREAT) {
		va_list ap;
		va_start(ap, flags);
		mode = va_arg(ap, int);
		va_end(ap);
	}
	return do_open(path, flags, mode, 0, 0);
}

int openat(int dirfd, const char *path, int flags, ...)
{
	mode_t mode = 0;
	if (flags & O_CREAT) {
		va_list ap;
		va_start(ap, flags);
		mode = va_arg(ap, int);
		va_end(ap);
	}
	return do_open(path, flags, mode, dirfd, 1);
}

ssize_t write(int fd, const void *buf, size_t len)
{
	static ssize_t (*real_write)(int, const void *, size_t);
	ssize_t r;
	if (!inited)
		init();
	if (!real_write)
		real_write = dlsym(RTLD_NEXT, "write");
	if (fd < 0 || fd >= 1024 || !savefd[fd])
		return real_write(fd, buf, len);
	n_write++;
	if (hit(2, n_write)) {
		struct fault *x = hit(2, n_write);
		if (x->err) {
			logf_("write fd=%d len=%zu -> -1 errno=%d (INJECTED)\n", fd, len, x->err);
			errno = x->err;
			return -1;
		}
		if (x->shrt && len > 1) {
			size_t k = x->shrt == 1 ? 1 : x->shrt == 2 ? len / 2 : len - 1;
			r = real_write(fd, buf, k);
			logf_("write fd=%d len=%zu -> %zd (INJECTED short)\n", fd, len, r);
			return r;
		}
	}
	r = real_write(fd, buf, len);
	logf_("write fd=%d len=%zu -> %zd\n", fd, len, r);
	return r;
}

int close(int fd)
{
	static int (*real_close)(int);
	int r;
	if (!inited)
		init();
	if (!real_close)
		real_close = dlsym(RTLD_NEXT, "close");
	if (fd < 0 || fd >= 1024 || !savefd[fd])
		return real_close(fd);
	savefd[fd] = 0;
	n_close++;
	r = real_close(fd);
	if (hit(3, n_close) && hit(3, n_close)->err) {
		logf_("close fd=%d -> -1 errno=%d (INJECTED)\n", fd, hit(3, n_close)->err);
		errno = hit(3, n_close)->err;
		return -1;
	}
	logf_("close fd=%d -> %d\n", fd, r);
	return r;
}
